#!/bin/sh
# developer tool: apply a seeded change to /repo, run the given quick checks, revert.  usage: tools/seedtest.sh <seeded-id> C01 [C07 ...]
id=$1; shift
cd /repo || exit 2
git diff --quiet || { echo "/repo has uncommitted changes"; exit 2; }
git apply /verif/seeded/$id/patch.diff || { echo "patch does not apply"; exit 2; }
cd /verif
for p in "$@"; do
  t0=$(date +%s); ./check $p --tier quick > /tmp/seed_${id}_$p.out 2>&1; rc=$?
  echo "seeded=$id check=$p rc=$rc $(( $(date +%s) - t0 ))s violations=$(grep -c '^VIOLATION' /tmp/seed_${id}_$p.out)"
  grep -A1 '^VIOLATION' /tmp/seed_${id}_$p.out | grep -v '^--' | head -4 | cut -c1-300
done
git -C /repo checkout -- . 
