#!/bin/sh
# run every quick check for the given seeds; print one line per (check, seed)
cd "$(dirname "$0")/.."
for s in "$@"; do
  for p in C01 C02 C03 C04 C05 C06 C07 C08 C09 C10 C11 C12 C13 C14 C15 C16 C17 C18 C19 C20; do
    t0=$(date +%s); VERIF_SEED=$s ./check $p --tier quick > /tmp/soak_$p_$s.out 2>&1; rc=$?
    echo "seed=$s $p rc=$rc $(( $(date +%s) - t0 ))s viol=$(grep -c '^VIOLATION' /tmp/soak_$p_$s.out) $(grep -E '^\[C[0-9]+\] [0-9]+ executions' /tmp/soak_$p_$s.out | cut -c1-160)"
    grep -A1 '^VIOLATION' /tmp/soak_$p_$s.out | head -6
  done
done
