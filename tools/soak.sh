#!/bin/sh
# developer tool: run every quick check (or TIER=thorough) for the given seeds; print one line per (check, seed)
# usage: tools/soak.sh [-t thorough] [-p "C01 C07"] seed...
cd "$(dirname "$0")/.."
tier=quick; props="C01 C02 C03 C04 C05 C06 C07 C08 C09 C10 C11 C12 C13 C14 C15 C16 C17 C18 C19 C20"
while [ $# -gt 0 ]; do case "$1" in -t) tier=$2; shift 2;; -p) props=$2; shift 2;; *) break;; esac; done
for s in "$@"; do
  for p in $props; do
    out=/tmp/soak_${p}_${tier}_${s}.out
    t0=$(date +%s); VERIF_SEED=$s ./check $p --tier $tier > $out 2>&1; rc=$?
    echo "seed=$s $p $tier rc=$rc $(( $(date +%s) - t0 ))s viol=$(grep -c '^VIOLATION' $out) $(grep -E '^\[C[0-9]+\] [0-9]+ executions' $out | cut -c1-170)"
    grep -A1 '^VIOLATION' $out | grep 'case=' | head -4 | cut -c1-400
  done
done
