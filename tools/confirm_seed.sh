#!/bin/sh
# developer tool: confirm a sub-agent's seeded change.  usage: tools/confirm_seed.sh <worktree> <seed-name> "<demo compile flags>"
wt=$1; name=$2; flags=$3
d=/verif/seeded/$name; mkdir -p $d
git -C $wt diff -- Fastor > $d/patch.diff
cp $wt/MUTANT/demo.cpp $d/demo.cpp; cp $wt/MUTANT/NOTES.md $d/NOTES.agent.md 2>/dev/null
echo "patch: $(grep -c '^[-+][^-+]' $d/patch.diff) changed lines in $(grep -c '^diff' $d/patch.diff) file(s)"
git -C /repo apply --check $d/patch.diff && echo "patch applies to /repo HEAD"
g++ -std=c++14 $flags -I$wt $d/demo.cpp -o /tmp/demo_with 2>/dev/null && { /tmp/demo_with >/tmp/demo_with.out 2>&1; echo "demo WITH change: exit $? ($(tail -1 /tmp/demo_with.out | cut -c1-120))"; }
g++ -std=c++14 $flags -I/repo $d/demo.cpp -o /tmp/demo_without 2>/dev/null && { /tmp/demo_without >/tmp/demo_without.out 2>&1; echo "demo WITHOUT change: exit $? ($(tail -1 /tmp/demo_without.out | cut -c1-120))"; }
cmake -G Ninja -S $wt -B $wt/_b -DCMAKE_BUILD_TYPE=RelWithDebInfo -DCMAKE_CXX_FLAGS=-Wno-error >/dev/null 2>&1 && cmake --build $wt/_b -j12 >/dev/null 2>&1
echo "suite with change: $(ctest --test-dir $wt/_b -j8 2>&1 | grep -E 'tests passed|tests failed')"
rm -rf $wt/_b /tmp/demo_with /tmp/demo_without
