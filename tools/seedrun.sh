#!/bin/sh
# developer tool: run checks against a seeded change in a scratch worktree (never touches /repo's working tree).
# usage: tools/seedrun.sh <seeded-name> [check ids ...]   (default: the property named in meta.json)   env: TIER, VERIF_SEED, VERIF_FILTER
name=$1; shift
wt=/tmp/wt/run_$name
git -C /repo worktree add -q --detach $wt HEAD || exit 2
git -C $wt apply /verif/seeded/$name/patch.diff || { echo "patch does not apply"; git -C /repo worktree remove --force $wt; exit 2; }
props="$@"; [ -z "$props" ] && props=$(python3 -c "import json;print(json.load(open('/verif/seeded/$name/meta.json'))['property'])")
cd /verif
for p in $props; do
  out=/tmp/seedrun_${name}_$p.out
  VERIF_REPO=$wt ./check $p --tier ${TIER:-quick} > $out 2>&1; rc=$?
  echo "seeded=$name check=$p rc=$rc violations=$(grep -c '^VIOLATION' $out) $(grep -E '^\[C[0-9]+\] [0-9]+ executions' $out | cut -c1-120)"
done
git -C /repo worktree remove --force $wt
git -C /verif checkout -- evidence 2>/dev/null
