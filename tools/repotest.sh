#!/bin/sh
# build and run the repository's own suite (guard off); exit 0 iff every test passes
cd /repo && cmake --build _build -j16 >/tmp/repotest.log 2>&1 || { tail -20 /tmp/repotest.log; exit 1; }
out=$(ctest --test-dir _build -j16 2>&1); echo "$out" | grep -E "tests passed|tests failed|Failed|\*\*\*"
echo "$out" | grep -q "100% tests passed" 
