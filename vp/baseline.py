"""MANIFEST.hooks.baseline_off_cmd: configure, build and run the repository's own test suite with the
hook guard (FASTOR_VERIF_HOOKS) NOT defined, in a scratch build directory, and compare with the 47
stable tests of /root/.vp/BASELINE.json."""
import os, sys, json, shutil, subprocess, re
sys.path.insert(0, os.path.dirname(os.path.dirname(os.path.abspath(__file__))))
from vp import core


def main():
    bdir = os.path.join(core.ROOT, '.work', 'baseline-%d' % os.getpid())
    os.makedirs(bdir, exist_ok=True)
    try:
        gen = ['-G', 'Ninja'] if shutil.which('ninja') else []
        r = subprocess.run(['cmake'] + gen + ['-S', core.REPO, '-B', bdir, '-DCMAKE_BUILD_TYPE=RelWithDebInfo', '-DCMAKE_CXX_FLAGS=-Wno-error'],
                           stdout=subprocess.PIPE, stderr=subprocess.STDOUT, text=True)
        if r.returncode:
            print(r.stdout[-3000:]); print('baseline: configure failed'); return 1
        r = subprocess.run(['cmake', '--build', bdir, '-j', str(core.NPROC), '--', '-k', '0'] if gen else ['cmake', '--build', bdir, '-j', str(core.NPROC)],
                           stdout=subprocess.PIPE, stderr=subprocess.STDOUT, text=True)
        if r.returncode:
            print(r.stdout[-3000:]); print('baseline: build had failures (continuing to ctest)')
        r = subprocess.run(['ctest', '--test-dir', bdir, '-j', '8', '--timeout', '900'], stdout=subprocess.PIPE, stderr=subprocess.STDOUT, text=True)
        passed = set(re.findall(r'Test\s+#\d+:\s+(\S+)\s+\.+\s+Passed', r.stdout))
        want = []
        try:
            want = [n.split('::')[0] for n in json.load(open('/root/.vp/BASELINE.json'))['stable_pass']]
        except (OSError, ValueError, KeyError):
            pass
        missing = [n for n in want if n not in passed]
        print('baseline (guard off): %d tests passed; %d of the %d stable baseline tests passed' % (len(passed), len(want) - len(missing), len(want)))
        if missing:
            print('baseline: NOT passing:', ' '.join(missing))
            return 1
        return 0
    finally:
        shutil.rmtree(bdir, ignore_errors=True)
        try:
            os.rmdir(os.path.join(core.ROOT, '.work'))
        except OSError:
            pass


if __name__ == '__main__':
    sys.exit(main())
