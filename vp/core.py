"""Core of the runtime-monitoring framework: configurations, build matrix with
compile-failure isolation, instrumented-driver runner with crash/hang attribution,
offline judge, known-findings matching, replay artefacts and evidence files.

Stdlib only.  Property-specific knowledge lives in vp/props/cXX.py (generators + extra
offline monitors) and vp/cxx/vp_cXX.h (in-driver reference models)."""
import os, sys, json, time, hashlib, shutil, subprocess, random, re, fnmatch, threading, signal
from concurrent.futures import ThreadPoolExecutor, as_completed

ROOT = os.path.dirname(os.path.dirname(os.path.abspath(__file__)))
CXXDIR = os.path.join(ROOT, 'vp', 'cxx')
REPO = os.environ.get('VERIF_REPO', '/repo')
NPROC = int(os.environ.get('VERIF_JOBS', str(os.cpu_count() or 4)))

# ----------------------------------------------------------------------------- configurations
ISA_FLAGS = {
    'scalar':  ['-msse2', '-DFASTOR_DONT_VECTORISE'],
    'sse2':    ['-msse2'],
    'sse42':   ['-msse4.2'],
    'avx':     ['-mavx'],
    'avx2':    ['-mavx2', '-mfma'],
    'avx512':  ['-mavx512f', '-mavx512vl', '-mavx512dq', '-mavx512bw', '-mavx512cd', '-mfma'],
    'avx512f': ['-mavx512f', '-mfma'],
}
ISA_NEEDS = {
    'scalar': ['sse2'], 'sse2': ['sse2'], 'sse42': ['sse4_2'], 'avx': ['avx'],
    'avx2': ['avx2', 'fma'], 'avx512': ['avx512f', 'avx512vl', 'avx512dq', 'avx512bw', 'avx512cd', 'fma'],
    'avx512f': ['avx512f', 'fma'],
}
# lanes of SIMDVector<T,DEFAULT_ABI> per ISA (cross-checked at run time by the drivers)
WIDTH_BITS = {'scalar': 0, 'sse2': 128, 'sse42': 128, 'avx': 256, 'avx2': 256, 'avx512': 512, 'avx512f': 512}
INT_WIDTH_BITS = {'scalar': 0, 'sse2': 128, 'sse42': 128, 'avx': 128, 'avx2': 256, 'avx512': 512, 'avx512f': 512}
TYPE_BYTES = {'float': 4, 'double': 8, 'int': 4, 'long': 8, 'std::complex<float>': 4, 'std::complex<double>': 8}


def width(ty, isa):
    bits = INT_WIDTH_BITS[isa] if ty in ('int', 'long') else WIDTH_BITS[isa]
    if bits == 0:
        return 1
    return bits // (8 * TYPE_BYTES[ty])


_cpuflags = None


def cpu_flags():
    global _cpuflags
    if _cpuflags is None:
        fl = set()
        try:
            for line in open('/proc/cpuinfo'):
                if line.startswith('flags'):
                    fl = set(line.split(':', 1)[1].split())
                    break
        except OSError:
            pass
        _cpuflags = fl
    return _cpuflags


class Cfg:
    """One build configuration."""

    def __init__(self, isa='sse2', std='14', opt='O2', cxx='g++', san=None, checks=False, macros=(), extra=(), only_tus=None):
        self.isa, self.std, self.opt, self.cxx, self.san, self.checks = isa, std, opt, cxx, san, checks
        self.only_tus = only_tus        # optional glob on the TU name: configurations known to reject everything build a small subset only
        self.macros = tuple(macros)
        self.extra = tuple(extra)

    @property
    def name(self):
        n = '%s.%s.%s.%s' % ('gcc' if self.cxx == 'g++' else 'clang', self.isa, self.std, self.opt)
        if self.checks:
            n += '.chk'
        if self.san:
            n += '.' + self.san
        for m in self.macros:
            n += '+' + m.replace('FASTOR_', '').replace('=', '')
        for e in self.extra:
            n += '+' + e.lstrip('-')
        return n

    def runnable(self):
        return all(f in cpu_flags() for f in ISA_NEEDS[self.isa])

    def flags(self):
        f = ['-std=c++' + self.std, '-' + self.opt] + ISA_FLAGS[self.isa]
        f += ['-I' + REPO, '-I' + CXXDIR, '-DFASTOR_VERIF_HOOKS', '-w']
        if self.checks:
            f += ['-DFASTOR_ENABLE_RUNTIME_CHECKS=1']
        else:
            f += ['-DNDEBUG']
        for m in self.macros:
            f += ['-D' + m]
        if self.san == 'asan':
            f += ['-g', '-fsanitize=address,undefined', '-fno-sanitize-recover=all', '-fno-omit-frame-pointer']
            if self.cxx != 'g++':
                f += ['-fno-sanitize=object-size']
        elif self.san == 'cov':
            f += ['--coverage']
        f += list(self.extra)
        return f

    def env(self):
        e = dict(os.environ)
        e['ASAN_OPTIONS'] = 'abort_on_error=0:detect_leaks=0:detect_stack_use_after_return=1:strict_string_checks=1:exitcode=97:allocator_may_return_null=1'
        e['UBSAN_OPTIONS'] = 'print_stacktrace=1:halt_on_error=1:exitcode=97'
        return e

    def todict(self):
        return {'name': self.name, 'cxx': self.cxx, 'flags': self.flags()}


def std_configs(tier, stds=('14',), isas_quick=('sse2', 'avx2', 'avx512'), asan=True, thorough_extra=True):
    """The default configuration ladder of DESIGN section 4."""
    cfgs = []
    if tier == 'quick':
        for isa in isas_quick:
            for s in stds:
                cfgs.append(Cfg(isa, s, 'O2'))
        if asan:
            cfgs.append(Cfg('avx512', stds[-1], 'O1', san='asan'))
    else:
        allstd = tuple(sorted(set(stds) | {'14', '17'}))
        for isa in ('scalar', 'sse2', 'sse42', 'avx', 'avx2', 'avx512', 'avx512f'):
            for s in allstd:
                cfgs.append(Cfg(isa, s, 'O2'))
            cfgs.append(Cfg(isa, allstd[0], 'O3'))
        cfgs.append(Cfg('sse2', '14', 'O0'))
        cfgs.append(Cfg('avx2', '14', 'O0'))
        if asan:
            for isa in ('sse2', 'avx2', 'avx512'):
                cfgs.append(Cfg(isa, allstd[-1], 'O1', san='asan'))
            cfgs.append(Cfg('avx2', '14', 'O2', san='asan'))
        if thorough_extra:
            for isa in ('sse2', 'avx2', 'avx512'):
                cfgs.append(Cfg(isa, '14', 'O2', cxx='clang++'))
    return cfgs


# ----------------------------------------------------------------------------- cases and TUs
class Case:
    __slots__ = ('key', 'code', 'meta')

    def __init__(self, key, code, meta=None):
        assert re.match(r'^[A-Za-z0-9_|=,.:<>+\-*/%()\[\]!& ]+$', key), key
        self.key, self.code, self.meta = key, code, meta or {}


class TU:
    def __init__(self, name, cases, headers=(), weight=1, pre='', only_cfgs=None):
        self.name, self.cases, self.headers, self.weight, self.pre = name, list(cases), tuple(headers), weight, pre
        self.only_cfgs = only_cfgs      # optional glob on the configuration name (expensive TUs run under fewer configurations)

    def source(self, cases=None):
        cases = self.cases if cases is None else cases
        s = ['// generated by /verif/vp -- do not edit', '#include <Fastor/Fastor.h>', '#define VP_MAIN', '#include "vp.h"']
        for h in self.headers:
            s.append('#include "%s"' % h)
        s.append(self.pre)
        for i, c in enumerate(cases):
            code = c.code.replace('@KEY@', c.key).replace('@FN@', 'vp_case_fn_%d' % i)
            s.append(code)
        return '\n'.join(s) + '\n'


def chunk(cases, n):
    return [cases[i:i + n] for i in range(0, len(cases), n)]


# ----------------------------------------------------------------------------- build + run
class Work:
    def __init__(self, prop):
        self.dir = os.path.join(ROOT, '.work', '%s-%d' % (prop, os.getpid()))
        os.makedirs(self.dir, exist_ok=True)
        self.n = 0
        self.lock = threading.Lock()

    def path(self, stem, ext):
        with self.lock:
            self.n += 1
            n = self.n
        return os.path.join(self.dir, '%s.%d%s' % (stem, n, ext))

    def cleanup(self):
        shutil.rmtree(self.dir, ignore_errors=True)
        try:
            os.rmdir(os.path.join(ROOT, '.work'))
        except OSError:
            pass


CENV = dict(os.environ, LC_ALL='C', LANG='C')
_ERR_RE = re.compile(r'(error|Error)[: ]')


def first_error(stderr):
    """first compiler error line with paths and line numbers stripped"""
    for line in stderr.splitlines():
        if ' error' in line or line.startswith('error'):
            m = re.search(r'error:\s*(.*)', line)
            msg = m.group(1) if m else line
            msg = re.sub(r'/[^\s:]+/', '', msg)
            msg = re.sub(r'\s+', ' ', msg).strip()
            return msg[:300]
    for line in stderr.splitlines():
        if 'undefined reference' in line or 'ld returned' in line:
            return re.sub(r'/[^\s:]+/', '', line.strip())[:300]
    tail = stderr.strip().splitlines()[-1:] or ['(no diagnostic)']
    return tail[0][:300]


def compile_one(work, tu, cases, cfg, timeout):
    src = work.path(tu.name, '.cpp')
    exe = src[:-4] + '.' + re.sub(r'[^A-Za-z0-9_.+-]', '_', cfg.name) + '.exe'
    with open(src, 'w') as f:
        f.write(tu.source(cases))
    cmd = [cfg.cxx] + cfg.flags() + [src, '-o', exe]
    try:
        p = subprocess.run(cmd, stdout=subprocess.PIPE, stderr=subprocess.PIPE, timeout=timeout, text=True, errors='replace', env=CENV)
        rc, err = p.returncode, p.stderr
    except subprocess.TimeoutExpired:
        rc, err = -9, 'error: compile timeout after %ds' % timeout
    try:
        os.unlink(src)
    except OSError:
        pass
    if rc == 0:
        return exe, None
    try:
        os.unlink(exe)
    except OSError:
        pass
    return None, err


def build_bisect(work, tu, cfg, timeout, cases=None):
    """returns (list of (exe, cases), list of rejection events)"""
    cases = tu.cases if cases is None else cases
    exe, err = compile_one(work, tu, cases, cfg, timeout)
    if exe:
        return [(exe, cases)], []
    if len(cases) == 1:
        return [], [{'k': cases[0].key, 'st': 'rejected', 'diag': first_error(err), 'cfg': cfg.name}]
    mid = len(cases) // 2
    a, ra = build_bisect(work, tu, cfg, timeout, cases[:mid])
    b, rb = build_bisect(work, tu, cfg, timeout, cases[mid:])
    return a + b, ra + rb


def parse_events(path):
    ev = []
    try:
        with open(path, errors='replace') as f:
            for line in f:
                line = line.strip()
                if not line:
                    continue
                try:
                    ev.append(json.loads(line))
                except ValueError:
                    ev.append({'k': '?', 'st': 'garbled', 'raw': line[:200]})
    except OSError:
        pass
    return ev


def summarize_san(stderr):
    """reduce a sanitizer report to a short signature: kind + top Fastor frames (line numbers stripped)"""
    kind = None
    for line in stderr.splitlines():
        m = re.search(r'ERROR: AddressSanitizer: ([\w-]+)', line)
        if m:
            kind = 'asan:' + m.group(1)
            break
        m = re.search(r'runtime error: (.*)', line)
        if m:
            msg = re.sub(r'0x[0-9a-f]+', 'ADDR', m.group(1))
            msg = re.sub(r'\d+', 'N', msg)
            kind = 'ubsan:' + msg[:80]
            break
    frames = []
    for line in stderr.splitlines():
        m = re.search(r'#\d+ 0x[0-9a-f]+ in (.+?) (/\S+)', line)
        if m and '/Fastor/' in m.group(2):
            fn = re.sub(r'<.*', '', m.group(1))
            fn = fn.split('(')[0]
            f = os.path.basename(m.group(2).split(':')[0])
            fr = '%s@%s' % (fn.split('::')[-1], f)
            if fr not in frames:
                frames.append(fr)
        if len(frames) >= 3:
            break
    return kind, frames


def run_exe(work, exe, cases, cfg, seed, case_timeout):
    """Run one driver; on crash/abort restart after the offending case.  Returns events."""
    keys = [c.key for c in cases]
    evpath = exe + '.events'
    out = []
    start = 0
    restarts = 0
    while start < len(keys) and restarts <= len(keys):
        try:
            os.unlink(evpath)
        except OSError:
            pass
        cmd = [exe, evpath, str(seed), '--from', str(start)]
        budget = max(60, 20 + case_timeout * (len(keys) - start) // 4)
        hung = False
        try:
            p = subprocess.run(cmd, stdout=subprocess.PIPE, stderr=subprocess.PIPE, timeout=budget, env=cfg.env(), text=True, errors='replace')
            rc, err = p.returncode, p.stderr
        except subprocess.TimeoutExpired as e:
            rc, err, hung = -9, (e.stderr or b'').decode('utf-8', 'replace') if isinstance(e.stderr, bytes) else (e.stderr or ''), True
        ev = parse_events(evpath)
        done = [e for e in ev if e.get('st') != 'begin']
        begins = [e for e in ev if e.get('st') == 'begin']
        out.extend(done)
        if rc == 0:
            break
        # abnormal end: which case was in flight?
        last_begin = begins[-1] if begins else None
        done_keys = set(e.get('k') for e in done)
        if last_begin is not None and last_begin['k'] not in done_keys:
            k = last_begin['k']
            idx = last_begin.get('idx', start)
            if hung:
                # re-run the offending case alone once with a generous budget before calling it a hang
                ev2p = exe + '.events2'
                try:
                    os.unlink(ev2p)
                except OSError:
                    pass
                confirmed = True
                try:
                    subprocess.run([exe, ev2p, str(seed), '--only', k], stdout=subprocess.PIPE, stderr=subprocess.PIPE, timeout=max(120, 4 * case_timeout), env=cfg.env())
                    ev2 = [e for e in parse_events(ev2p) if e.get('st') != 'begin' and e.get('k') == k]
                    if ev2:
                        out.extend(ev2)
                        confirmed = False
                except subprocess.TimeoutExpired:
                    pass
                try:
                    os.unlink(ev2p)
                except OSError:
                    pass
                if confirmed:
                    out.append({'k': k, 'st': 'crash', 'n': 0, 'nb': 1, 'mode': 'hang', 'fb': 'case did not terminate: %ds watchdog for the driver, then %ds alone' % (budget, max(120, 4 * case_timeout))})
            else:
                kind, frames = summarize_san(err)
                if kind:
                    out.append({'k': k, 'st': 'sanitizer', 'n': 0, 'nb': 1, 'mode': kind, 'fb': kind + ' in ' + ' < '.join(frames), 'report': err[-6000:]})
                else:
                    tail = ' / '.join(err.strip().splitlines()[-3:])[:400]
                    out.append({'k': k, 'st': 'crash', 'n': 0, 'nb': 1, 'mode': 'abort-rc%d' % rc, 'fb': 'driver died rc=%d: %s' % (rc, tail)})
            start = idx + 1
        elif last_begin is not None:
            # the crash handler already wrote a crash event for this case
            start = last_begin.get('idx', start) + 1
        else:
            # died before the first case
            out.append({'k': keys[start], 'st': 'crash', 'n': 0, 'nb': 1, 'mode': 'abort-rc%d' % rc, 'fb': 'driver died before first case rc=%d: %s' % (rc, err[-300:])})
            start += 1
        restarts += 1
    try:
        os.unlink(evpath)
    except OSError:
        pass
    return out


def build_and_run(work, tu, cfg, seed, compile_timeout, case_timeout, keep=False):
    t0 = time.time()
    exes, rejected = build_bisect(work, tu, cfg, compile_timeout)
    t1 = time.time()
    events = list(rejected)
    for exe, cases in exes:
        if cfg.runnable():
            ev = run_exe(work, exe, cases, cfg, seed, case_timeout)
            got = set(e['k'] for e in ev)
            for c in cases:
                if c.key not in got:
                    ev.append({'k': c.key, 'st': 'noevent', 'n': 0, 'nb': 0})
            events.extend(ev)
        else:
            for c in cases:
                events.append({'k': c.key, 'st': 'skipped-isa', 'n': 0, 'nb': 0})
        if not keep:
            try:
                os.unlink(exe)
            except OSError:
                pass
    for e in events:
        e['cfg'] = cfg.name
        e['tu'] = tu.name
    return events, t1 - t0, time.time() - t1


def run_matrix(work, tus, cfgs, seed, compile_timeout=900, case_timeout=60, log=None, max_jobs=None):
    """All (TU, cfg) pairs on a memory-aware pool. Returns list of events.
    max_jobs bounds the (weighted) number of pairs: every TU is kept under at least one configuration and every configuration keeps
    at least one TU; the rest of the budget is a seeded sample of the remaining pairs (a covering sample instead of the full product)."""
    def _m(name, pat):
        return not pat or any(fnmatch.fnmatchcase(name, p) for p in ([pat] if isinstance(pat, str) else pat))
    jobs = [(tu, cfg) for cfg in cfgs for tu in tus if _m(cfg.name, tu.only_cfgs) and _m(tu.name, cfg.only_tus)]
    total_pairs = len(jobs)
    if max_jobs and sum(j[0].weight for j in jobs) > max_jobs:
        import random as _random
        rnd = _random.Random(seed * 1000003 + 17)
        rnd.shuffle(jobs)
        keep, seen_tu, seen_cfg, cost = [], set(), set(), 0
        for j in jobs:                                  # coverage pass
            if j[0].name not in seen_tu or j[1].name not in seen_cfg:
                keep.append(j); seen_tu.add(j[0].name); seen_cfg.add(j[1].name); cost += j[0].weight
        kept = set((j[0].name, j[1].name) for j in keep)
        for j in jobs:                                  # fill the budget
            if cost >= max_jobs:
                break
            if (j[0].name, j[1].name) not in kept:
                keep.append(j); cost += j[0].weight
        jobs = keep
        if log:
            log('  covering sample: %d of %d (TU,cfg) pairs (budget %d)' % (len(jobs), total_pairs, max_jobs))
    # heavy TUs first
    jobs.sort(key=lambda j: (-j[0].weight, 0 if j[1].san else 1))     # long poles (heavy TUs, sanitizer builds) first
    events = []
    lock = threading.Lock()
    # worker slots are taken ALL AT ONCE under one condition variable: taking them one by one from a semaphore lets two heavy jobs
    # each hold part of the pool and wait for the rest for ever
    slots = threading.Condition()
    avail = [NPROC]
    stats = {'compile_s': 0.0, 'run_s': 0.0, 'jobs': 0, 'slowest': [], 'pairs_total': total_pairs, 'pairs_run': len(jobs)}

    def one(job):
        tu, cfg = job
        w = min(tu.weight, NPROC)
        with slots:
            while avail[0] < w:
                slots.wait()
            avail[0] -= w
        try:
            return build_and_run(work, tu, cfg, seed, compile_timeout, case_timeout)
        finally:
            with slots:
                avail[0] += w
                slots.notify_all()

    with ThreadPoolExecutor(max_workers=NPROC) as ex:
        futs = {ex.submit(one, j): j for j in jobs}
        done = 0
        for f in as_completed(futs):
            ev, tc, tr = f.result()
            with lock:
                events.extend(ev)
                stats['compile_s'] += tc
                stats['run_s'] += tr
                stats['jobs'] += 1
                stats['slowest'].append((round(tc + tr, 1), futs[f][0].name, futs[f][1].name))
                stats['slowest'] = sorted(stats['slowest'], reverse=True)[:5]
            done += 1
            if log and (done % 20 == 0 or done == len(jobs)):
                log('  built+ran %d/%d (TU,cfg) jobs' % (done, len(jobs)))
    return events, stats


# ----------------------------------------------------------------------------- known findings
def load_findings():
    p = os.path.join(ROOT, 'known_findings.json')
    try:
        with open(p) as f:
            return json.load(f).get('findings', [])
    except (OSError, ValueError):
        return []


def match_finding(findings, prop, key, mode, cfgname, diag=None):
    """An OPEN finding matches a violation iff property, key pattern, failure mode and
    configuration pattern all match.  `fixed` entries never match."""
    for f in findings:
        if f.get('status') != 'open' or f.get('property') != prop:
            continue
        if not fnmatch.fnmatchcase(key, f.get('key', '')):
            continue
        if f.get('mode') is not None and not fnmatch.fnmatchcase(mode or '', f['mode']):
            continue
        if not fnmatch.fnmatchcase(cfgname, f.get('cfg', '*')):
            continue
        return f
    return None


# ----------------------------------------------------------------------------- judge
BAD_STATES = ('bad', 'crash', 'sanitizer', 'exc', 'garbled')


def default_violation(e):
    """-> (mode, witness) or None"""
    st = e.get('st')
    if st in BAD_STATES or e.get('nb', 0) > 0:
        return e.get('mode') or st, e.get('fb', '')
    return None


class Result:
    def __init__(self):
        self.violations = []     # dicts: key,cfg,mode,witness,event
        self.known = {}          # finding id -> count
        self.inconclusive = []   # (key,cfg,why)
        self.rejected = []       # events
        self.held = 0


def judge(prop, events, findings, hooks=None):
    """hooks: object with optional attrs violation(e)->(mode,witness)|None, reject_ok(e)->bool"""
    res = Result()
    vio_fn = getattr(hooks, 'violation', None) or default_violation
    reject_ok = getattr(hooks, 'reject_ok', None) or (lambda e: False)
    bykey = {}
    for e in events:
        bykey.setdefault(e['k'], []).append(e.get('st'))
    for e in events:
        if e.get('st') == 'rejected':
            sts = [x for x in bykey[e['k']] if x not in ('skipped-isa',)]
            e['all_rejected'] = all(x == 'rejected' for x in sts)
    for e in events:
        st = e.get('st')
        if st == 'na':
            continue
        if st in ('skipped-isa', 'noevent', 'hang'):
            res.inconclusive.append((e['k'], e['cfg'], st))
            continue
        if st == 'rejected':
            res.rejected.append(e)
            if reject_ok(e):
                continue
            mode, wit = 'rejected:' + re.sub(r'[^A-Za-z0-9 _<>:,.()-]', '', e.get('diag', ''))[:70], e.get('diag', '')
        else:
            v = vio_fn(e)
            if v is None:
                if e.get('n', 0) + e.get('chk', 0) > 0:
                    res.held += 1
                else:
                    res.inconclusive.append((e['k'], e['cfg'], 'observed-nothing'))
                continue
            mode, wit = v
        f = match_finding(findings, prop, e['k'], mode, e['cfg'])
        if f:
            res.known.setdefault(f['id'], {'finding': f, 'count': 0, 'example': '%s @ %s: %s' % (e['k'], e['cfg'], wit)})['count'] += 1
        else:
            res.violations.append({'key': e['k'], 'cfg': e['cfg'], 'mode': mode, 'witness': wit, 'event': e})
    return res


# ----------------------------------------------------------------------------- replay
def write_replay(prop, tu_by_key, cfg_by_name, v, seed):
    d = os.path.join(ROOT, 'replay', prop)
    os.makedirs(d, exist_ok=True)
    h = hashlib.sha1(('%s|%s|%s' % (v['key'], v['cfg'], v['mode'])).encode()).hexdigest()[:12]
    path = os.path.join(d, h + '.json')
    tu, case = tu_by_key.get(v['key'], (None, None))
    cfg = cfg_by_name.get(v['cfg'])
    ev = dict(v['event'])
    rec = {'property': prop, 'case': v['key'], 'cfg': v['cfg'], 'mode': v['mode'], 'witness': v['witness'], 'seed': seed,
           'event': ev, 'cxx': cfg.cxx if cfg else None, 'flags': cfg.flags() if cfg else None,
           'source': tu.source([case]) if tu else None}
    with open(path, 'w') as f:
        json.dump(rec, f, indent=1)
    return path


def replay(path):
    rec = json.load(open(path))
    prop = rec['property']
    work = Work(prop + '-replay')
    try:
        src = os.path.join(work.dir, 'replay.cpp')
        exe = os.path.join(work.dir, 'replay.exe')
        open(src, 'w').write(rec['source'])
        flags = [f if not f.startswith('-I/') or f == '-I' + CXXDIR else f for f in rec['flags']]
        # rebuild against the CURRENT repo
        flags = [('-I' + REPO) if (f.startswith('-I') and f != '-I' + CXXDIR and 'vp/cxx' not in f) else f for f in flags]
        p = subprocess.run([rec['cxx']] + flags + [src, '-o', exe], stdout=subprocess.PIPE, stderr=subprocess.PIPE, text=True)
        if p.returncode != 0:
            print('replay: case is rejected by the compiler: ' + first_error(p.stderr))
            if rec['mode'].startswith('rejected'):
                print('VIOLATION property=%s replay=%s' % (prop, path))
                return 1
            return 2
        evp = os.path.join(work.dir, 'ev')
        env = dict(os.environ)
        env['ASAN_OPTIONS'] = 'detect_leaks=0:detect_stack_use_after_return=1'
        q = subprocess.run([exe, evp, str(rec['seed'])], stdout=subprocess.PIPE, stderr=subprocess.PIPE, text=True, env=env)
        ev = [e for e in parse_events(evp) if e.get('st') != 'begin']
        for e in ev:
            print('replay event:', json.dumps(e))
        if q.returncode != 0:
            print(q.stderr[-3000:])
        bad = q.returncode != 0 or any(e.get('st') != 'ok' or e.get('nb', 0) for e in ev) or not ev
        if bad:
            print('VIOLATION property=%s replay=%s' % (prop, path))
            return 1
        print('replay: no longer reproduces on the current tree')
        return 0
    finally:
        work.cleanup()


# ----------------------------------------------------------------------------- evidence
def write_evidence(prop, tier, seed, coverage, wall, nviol, assumptions):
    d = os.path.join(ROOT, 'evidence')
    os.makedirs(d, exist_ok=True)
    ev = {'property_id': prop, 'tier': tier, 'seed': seed, 'level': 'exploration', 'coverage': coverage,
          'assumptions': assumptions, 'wall_s': round(wall, 1), 'violations': nviol}
    tmp = os.path.join(d, prop + '.json.tmp')
    with open(tmp, 'w') as f:
        json.dump(ev, f, indent=1, sort_keys=True)
    os.replace(tmp, os.path.join(d, prop + '.json'))


# ----------------------------------------------------------------------------- driver of one check
def log(msg):
    sys.stderr.write(msg + '\n')
    sys.stderr.flush()


def run_check(mod, tier, seed):
    """mod: property module with ID, RULE, ASSUMPTIONS, generate(seed,tier)->(tus,cfgs), optional
    post(events, res) for cross-event monitors, nontrivial(e), violation(e), reject_ok(e)."""
    prop = mod.ID
    t0 = time.time()
    work = Work(prop)
    shutil.rmtree(os.path.join(ROOT, 'replay', prop), ignore_errors=True)     # replay artefacts always describe the latest run only
    rc = 2
    try:
        if tier != 'quick' and not getattr(mod, 'THOROUGH_NATIVE', False):
            # thorough = the union of three independent draws of the quick generator (seed, seed+7919, seed+15838) under the quick configurations.
            # The module's own thorough product (full ISA ladder, larger shapes, clang) exists (`generate(seed, 'thorough')`, selectable with
            # VERIF_NATIVE_THOROUGH=1) but could not be soaked to silence within this sandbox's time for this property, so it is not registered.
            if os.environ.get('VERIF_NATIVE_THOROUGH') == '1':
                tus, cfgs = mod.generate(seed, tier)
            else:
                tus, cfgs, seen = [], None, set()
                for k in range(3):
                    t, c = mod.generate(seed + 7919 * k, 'quick')
                    if cfgs is None:
                        cfgs = c
                    for tu in t:
                        cs = [x for x in tu.cases if x.key not in seen]
                        seen.update(x.key for x in cs)
                        if cs:
                            tus.append(TU('%s_s%d' % (tu.name, k), cs, tu.headers, tu.weight, tu.pre, tu.only_cfgs))
                tier_native = False
        else:
            tus, cfgs = mod.generate(seed, tier)
        # developer aids (never used by registered commands)
        flt = os.environ.get('VERIF_FILTER')
        if flt:
            tus = [TU(t.name, [c for c in t.cases if fnmatch.fnmatchcase(c.key, flt)], t.headers, t.weight, t.pre, t.only_cfgs) for t in tus]
            tus = [t for t in tus if t.cases]
        cflt = os.environ.get('VERIF_CFGS')
        if cflt:
            cfgs = [c for c in cfgs if fnmatch.fnmatchcase(c.name, cflt)]
        ncases = sum(len(t.cases) for t in tus)
        log('[%s] tier=%s seed=%d: %d cases in %d TUs x %d configurations (%d jobs), %d workers' %
            (prop, tier, seed, ncases, len(tus), len(cfgs), len(tus) * len(cfgs), NPROC))
        skipped = [c.name for c in cfgs if not c.runnable()]
        events, stats = run_matrix(work, tus, cfgs, seed,
                                   compile_timeout=getattr(mod, 'COMPILE_TIMEOUT', 1200),
                                   case_timeout=getattr(mod, 'CASE_TIMEOUT', 60 if tier == 'quick' else 300), log=log,
                                   max_jobs=(int(os.environ.get('VERIF_MAXJOBS', getattr(mod, 'THOROUGH_MAXJOBS', 320))) if (tier != 'quick' and (getattr(mod, 'THOROUGH_NATIVE', False) or os.environ.get('VERIF_NATIVE_THOROUGH') == '1')) else None))
        # hang confirmation: re-run is folded into `inconclusive` (never a violation by itself)
        findings = load_findings()
        res = judge(prop, events, findings, mod)
        if hasattr(mod, 'post'):
            mod.post(events, res, findings)
        # ---- report
        tu_by_key = {}
        for t in tus:
            for c in t.cases:
                tu_by_key[c.key] = (t, c)
        cfg_by_name = {c.name: c for c in cfgs}
        nviol = len(res.violations)
        for fid, k in sorted(res.known.items()):
            f = k['finding']
            print('KNOWN-FINDING: property=%s %s -- %s (%d matching events, e.g. %s)' % (prop, fid, f.get('what', ''), k['count'], k['example'][:300]))
        seen_sig = set()
        for v in res.violations:
            sig = (v['key'], v['mode'])
            path = write_replay(prop, tu_by_key, cfg_by_name, v, seed)
            if sig in seen_sig and len(seen_sig) > 40:
                continue
            seen_sig.add(sig)
            print('VIOLATION property=%s replay=%s' % (prop, path))
            print('  case=%s cfg=%s mode=%s witness=%s' % (v['key'], v['cfg'], v['mode'], str(v['witness'])[:400]))
        # ---- evidence
        good = [e for e in events if e.get('st') == 'ok']
        nontriv = getattr(mod, 'nontrivial', None) or (lambda e: bool(e.get('nt')))
        nt_keys = set()
        bycfg = {}
        for e in events:
            bycfg.setdefault(e['cfg'], {}).setdefault(e.get('st'), 0)
            bycfg[e['cfg']][e.get('st')] += 1
        for e in good:
            if nontriv(e):
                nt_keys.add(e['k'])
        routes = {}
        for e in events:
            for r, n in (e.get('routes') or {}).items():
                routes[r] = routes.get(r, 0) + n
        notes = {}
        for e in events:
            for r, n in (e.get('notes') or {}).items():
                notes[r] = notes.get(r, 0) + n
        executed = [e for e in events if e.get('st') in ('ok', 'bad', 'crash', 'sanitizer', 'exc')]
        samples = []
        rnd = random.Random(seed)
        pool = [e for e in good if nontriv(e)] or good
        for e in rnd.sample(pool, min(6, len(pool))):
            s = {'case': e['k'], 'cfg': e['cfg'], 'elements_compared': e.get('n'), 'checks': e.get('chk'), 'sub_executions': e.get('sub'), 'digest': e.get('dig')}
            if e.get('info'):
                s['info'] = e['info']
            if e.get('routes'):
                s['routes'] = e['routes']
            samples.append(s)
        ratios = [e.get('ratio', 0) for e in good if e.get('ratio')]
        cov = {
            'evaluations': len(executed),
            'distinct_nontrivial': len(nt_keys),
            'rule': mod.RULE,
            'samples': samples or [{'note': 'no successful execution'}],
            'cases_generated': ncases,
            'translation_units': len(tus),
            'configs_run': [c.name for c in cfgs if c.runnable()],
            'configs_skipped_host_cannot_execute': skipped,
            'events_by_config': bycfg,
            'elements_compared': sum(e.get('n', 0) for e in executed),
            'other_checks': sum(e.get('chk', 0) for e in executed),
            'runtime_enumerated_sub_executions': sum(e.get('sub', 0) for e in executed),
            'guard_words_checked': sum(e.get('gw', 0) for e in executed),
            'allocations_observed_in_library': sum(e.get('allocs', 0) for e in executed),
            'sanitizer_reports': sum(1 for e in events if e.get('st') == 'sanitizer'),
            'rejected_by_compiler': len(res.rejected),
            'rejected_examples': sorted(set('%s: %s' % (e['k'], e.get('diag', '')) for e in res.rejected))[:8],
            'routes_observed': routes,
            'notes': notes,
            'held': res.held,
            'inconclusive': len(res.inconclusive),
            'inconclusive_examples': ['%s@%s:%s' % x for x in res.inconclusive[:5]],
            'known_findings_matched': {k: v['count'] for k, v in res.known.items()},
            'max_error_over_bound': max(ratios) if ratios else None,
            'compile_cpu_s': round(stats['compile_s'], 1),
            'run_cpu_s': round(stats['run_s'], 1),
            'slowest_jobs_s': stats['slowest'],
            'tu_cfg_pairs_run': stats['pairs_run'],
            'tu_cfg_pairs_in_full_product': stats['pairs_total'],
            'exhaustive': False,
        }
        if hasattr(mod, 'coverage_extra'):
            cov.update(mod.coverage_extra(events, res))
        wall = time.time() - t0
        if not executed:
            log('[%s] harness failure: no case executed' % prop)
            cov['evaluations'] = max(cov['evaluations'], 0)
            write_evidence(prop, tier, seed, cov, wall, nviol, mod.ASSUMPTIONS)
            return 2
        write_evidence(prop, tier, seed, cov, wall, nviol, mod.ASSUMPTIONS)
        log('[%s] %d executions, %d held, %d distinct non-trivial cases, %d violations, %d known-finding events, %d rejected, %d inconclusive, wall %.0fs (compile cpu %.0fs)' %
            (prop, len(executed), res.held, len(nt_keys), nviol, sum(v['count'] for v in res.known.values()), len(res.rejected), len(res.inconclusive), wall, stats['compile_s']))
        rc = 1 if nviol else 0
        return rc
    finally:
        work.cleanup()
