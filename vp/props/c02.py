"""C02 -- an evaluated expression equals the scalar operation applied element by element."""
import random
from ..core import Case, TU, chunk, Cfg

ID = 'C02'
TYPES = [('float', 'f32'), ('double', 'f64'), ('int', 'i32'), ('long', 'i64')]
RULE = ('cases = (expression tree, element type, shape [, destination kind]). Trees are generated from a typed grammar '
        '(leaves: three tensors and two scalars; unary + - abs sqrt and the libm family; binary + - * / with tensor/scalar '
        'on either side; min max pow atan2 hypot; comparisons, && || !, isinf/isnan/isfinite) up to a depth bound; the SAME '
        'tree is printed once as a Fastor expression and once as plain scalar C++ which is the oracle. Every case evaluates '
        'r=expr (painted+framed destination), Tensor r=expr, evaluate(expr), r+=, r-=, r*=, r/= on two draws per value regime '
        '(small integers; generic reals; IEEE specials incl. +-0, denormals, inf, NaN, half-integers) and compares every flat '
        'position bitwise (NaN==NaN), attributing a mismatch to the SIMD vector body or the scalar tail. Rank-1 sizes rotate '
        'over 1..35 (every residue of every vector width), simple trees and tensor op= scalar run at EVERY size 1..35; '
        'variants write through dynamic/fixed whole-tensor views (eval(i,j)/teval entry points) and use TensorMap operands and '
        'destinations on guard pages at byte misalignments. Integer leaf magnitudes are bounded per tree so that no scalar '
        'operation overflows. non-trivial = reference result has >=2 distinct values (bool: both truth values); distinct = case keys.')
ASSUMPTIONS = ['the scalar C++ expression generated from the same tree is the reference (host libm for math functions)',
               'drivers are compiled with -ffp-contract=off so that neither side is FMA-contracted',
               'min/max are not driven with NaN or (+0,-0) operand pairs',
               'tensor /= floating scalar is judged within 2 ulp (documented reciprocal multiply); non-finite/denormal quotients are not judged there']

UNARY_MATH = ['cbrt', 'exp', 'exp2', 'expm1', 'log', 'log10', 'log2', 'log1p', 'sin', 'cos', 'tan', 'asin', 'acos', 'atan',
              'sinh', 'cosh', 'tanh', 'asinh', 'acosh', 'atanh', 'erf', 'tgamma', 'lgamma', 'ceil', 'round', 'floor', 'trunc']
BINARY_MATH = ['pow', 'atan2', 'hypot']


class Node:
    def __init__(self, f, s, bound, div=False, depth=0, minmax=False, ops=0):
        self.f, self.s, self.bound, self.div, self.depth, self.minmax, self.ops = f, s, bound, div, depth, minmax, ops


def leaf(name):
    tensor = name in ('a', 'b', 'cc')
    n = Node(name, name, lambda m: m, depth=0)
    n.tensor = tensor
    return n


def un(op, x, isfloat):
    if op == '-':
        n = Node('(-%s)' % x.f, '(-%s)' % x.s, x.bound, x.div, x.depth + 1, x.minmax, x.ops + 1)
    elif op == '+':
        n = Node('(+%s)' % x.f, '(+%s)' % x.s, x.bound, x.div, x.depth + 1, x.minmax, x.ops + 1)
    elif op == 'abs':
        n = Node('abs(%s)' % x.f, 'std::abs(%s)' % x.s, x.bound, x.div, x.depth + 1, x.minmax, x.ops + 1)
    elif op == 'sqrt':
        n = Node('sqrt(abs(%s))' % x.f, 'std::sqrt(std::abs(%s))' % x.s, x.bound, x.div, x.depth + 2, x.minmax, x.ops + 2)
    else:
        n = Node('%s(%s)' % (op, x.f), 'std::%s(%s)' % (op, x.s), x.bound, x.div, x.depth + 1, x.minmax, x.ops + 1)
    n.tensor = x.tensor
    return n


def bi(op, x, y):
    if op == '+' or op == '-':
        bound = lambda m, x=x, y=y: x.bound(m) + y.bound(m)
    elif op == '*':
        bound = lambda m, x=x, y=y: x.bound(m) * y.bound(m)
    else:
        bound = lambda m, x=x: x.bound(m)
    n = Node('(%s %s %s)' % (x.f, op, y.f), '(%s %s %s)' % (x.s, op, y.s), bound, x.div or y.div or op == '/', max(x.depth, y.depth) + 1, x.minmax or y.minmax, x.ops + y.ops + 1)
    n.tensor = x.tensor or y.tensor
    return n


def gen_arith(rnd, depth, isfloat, need_tensor=True):
    """random arithmetic tree"""
    if depth == 0:
        l = leaf(rnd.choice(['a', 'b', 'cc', 'a', 'b', 'cc', 's1', 's2']))
        if need_tensor and not l.tensor:
            l = leaf(rnd.choice(['a', 'b', 'cc']))
        return l
    r = rnd.random()
    if r < 0.22:
        op = rnd.choice(['-', '-', 'abs', '+'] + (['sqrt'] if isfloat else []))
        # operands of unary functions always contain a tensor: a scalar-only call such as sqrt(s2) would bind to the C
        # library overload for double in the Fastor expression text but to std::sqrt(float) in the oracle text
        return un(op, gen_arith(rnd, depth - 1, isfloat, True), isfloat)
    op = rnd.choice(['+', '-', '*', '/', '+', '-', '*'])
    if op == '/':
        x = gen_arith(rnd, depth - 1, isfloat, False)
        y = leaf(rnd.choice(['b', 's1'])) if (not isfloat or rnd.random() < 0.6) else gen_arith(rnd, rnd.randrange(0, depth), isfloat, False)
    else:
        x = gen_arith(rnd, rnd.randrange(0, depth), isfloat, False)
        y = gen_arith(rnd, depth - 1, isfloat, False)
        if rnd.random() < 0.5:
            x, y = y, x
    n = bi(op, x, y)
    if need_tensor and not n.tensor:
        return bi(rnd.choice(['+', '-', '*']), n, leaf(rnd.choice(['a', 'b', 'cc']))) if rnd.random() < 0.5 else bi(rnd.choice(['+', '-', '*']), leaf(rnd.choice(['a', 'b', 'cc'])), n)
    return n


def mag_for(tree):
    for m in (1000, 300, 100, 30, 9, 4, 2, 1):
        if tree.bound(m) * 4 < 2 ** 30:
            return m
    return None


def dims_str(d):
    return ','.join(map(str, d))


def generate(seed, tier):
    quick = tier == 'quick'
    rnd = random.Random(seed * 104729 + 11)
    cases = {}
    sizes = list(range(1, 36))
    size_i = [rnd.randrange(len(sizes))]
    shapes2 = [(2, 3), (3, 5), (4, 4), (5, 7), (3, 16), (7, 9), (1, 17), (9, 2)]
    shapes3 = [(2, 3, 4), (3, 3, 3), (2, 5, 3), (4, 2, 9)]

    def next_shape():
        r = rnd.random()
        if r < 0.7:
            size_i[0] += 1
            return (sizes[size_i[0] % len(sizes)],)
        if r < 0.88:
            return rnd.choice(shapes2)
        return rnd.choice(shapes3)

    def add(kind, tk, tn, tree, dims, flags, mag, runner='run'):
        key = 'C02|%s|%s|%s|%s' % (kind, tk, 'x'.join(map(str, dims)), tree.f.replace(' ', ''))
        if key in cases or len(key) > 230:
            return
        fl = '|'.join(flags) if flags else '0'
        code = ('static void @FN@(vp::Ctx& c) { using namespace Fastor; using namespace vp::c02; using T = %s;\n'
                '  %s<T, %d, %s, %s>(c,\n'
                '    [](const auto& a, const auto& b, const auto& cc, T s1, T s2) { return %s; },\n'
                '    [](T a, T b, T cc, T s1, T s2) -> T { return (T)(%s); });\n}\nVP_CASE("@KEY@", @FN@);'
                % (tn, runner, mag, fl, dims_str(dims), tree.f, tree.s))
        cases[key] = Case(key, code)

    def addb(tk, tn, ftxt, stxt, dims):
        key = 'C02|bool|%s|%s|%s' % (tk, 'x'.join(map(str, dims)), ftxt.replace(' ', ''))
        if key in cases:
            return
        code = ('static void @FN@(vp::Ctx& c) { using namespace Fastor; using namespace vp::c02; using T = %s;\n'
                '  runb<T, 0, %s>(c,\n'
                '    [](const auto& a, const auto& b, const auto& cc, T s1, T s2) { return %s; },\n'
                '    [](T a, T b, T cc, T s1, T s2) -> bool { return (%s); });\n}\nVP_CASE("@KEY@", @FN@);'
                % (tn, dims_str(dims), ftxt, stxt))
        cases[key] = Case(key, code)

    n_arith = (45 if quick else 260)
    for tn, tk in TYPES:
        isfloat = tk[0] == 'f'
        # A. random arithmetic trees
        made = 0
        attempts = 0
        while made < n_arith and attempts < n_arith * 20:
            attempts += 1
            depth = rnd.choice([1, 2, 2, 3] if quick else [1, 2, 3, 3, 4])
            t = gen_arith(rnd, depth, isfloat)
            if t.ops == 0:
                continue
            mag = mag_for(t)
            if mag is None:
                continue
            flags = ['F_REALS', 'F_SPECIALS'] if isfloat else []
            if t.div:
                flags.append('F_DIV')
            before = len(cases)
            add('arith', tk, tn, t, next_shape(), flags, mag)
            made += len(cases) - before
        # every top-level operator x scalar-side form explicitly (the helper overloads are hand-written per side)
        for op in ['+', '-', '*', '/']:
            for (l, r) in [('a', 'b'), ('a', 's1'), ('s1', 'a'), ('s1', 'b')]:
                if op == '/' and r == 'a':
                    r = 'b'
                t = bi(op, leaf(l), leaf(r))
                flags = (['F_REALS', 'F_SPECIALS'] if isfloat else []) + (['F_DIV'] if op == '/' else [])
                add('arith', tk, tn, t, next_shape(), flags, mag_for(t))
        # view destinations and TensorMap placements for a sample
        keys = [k for k in cases if k.startswith('C02|arith|%s|' % tk)]
        for t_depth in range(6 if quick else 24):
            t = gen_arith(rnd, rnd.choice([1, 2, 2]), isfloat)
            mag = mag_for(t)
            if t.ops == 0 or mag is None:
                continue
            flags = ['F_DIV'] if t.div else []
            shp = rnd.choice([(sizes[rnd.randrange(35)],), rnd.choice(shapes2), rnd.choice(shapes3)])
            add('viewdst', tk, tn, t, shp, flags, mag, runner='run_viewdst')
            add('maps', tk, tn, t, (sizes[rnd.randrange(35)],), flags, mag, runner='run_maps')
        # B. math functions (floating types only)
        if isfloat:
            fns = UNARY_MATH if not quick else rnd.sample(UNARY_MATH, 14)
            for fn in fns:
                arg = rnd.choice([leaf('a'), bi('*', leaf('a'), leaf('s1')), bi('+', leaf('a'), leaf('b'))])
                t = un(fn, arg, True)
                flags = ['F_REALS'] + ([] if fn == 'round' else ['F_SPECIALS'])
                add('math', tk, tn, t, next_shape(), flags, 9)
            # round() on the specials pool (contains half-integers) is its own case so that a tie-breaking difference is attributed
            add('math', tk, tn, un('round', leaf('a'), True), (19,), ['F_SPECIALS'], 9)
            for fn in BINARY_MATH:
                t = Node('%s(a, b)' % fn, 'std::%s(a, b)' % fn, lambda m: m, ops=1)
                add('math', tk, tn, t, next_shape(), ['F_REALS', 'F_SPECIALS'], 9)
            t = Node('pow(abs(a), s2)', 'std::pow(std::abs(a), s2)', lambda m: m, ops=2)
            add('math', tk, tn, t, next_shape(), ['F_REALS'], 9)
        for fn in ['min', 'max']:
            for (l, r) in [('a', 'b'), ('a', 's1'), ('s1', 'b')]:
                t = Node('%s(%s, %s)' % (fn, l, r), 'std::%s(%s, %s)' % (fn, l, r), lambda m: m, ops=1)
                add('math', tk, tn, t, next_shape(), ['F_REALS'] if isfloat else [], 1000)
        # C. boolean-valued expressions
        cmpops = ['==', '!=', '<', '>', '<=', '>=']
        for op in cmpops:
            for (l, r) in ([('a', 'b'), ('a', 's1')] if quick else [('a', 'b'), ('a', 's1'), ('s1', 'b')]):
                addb(tk, tn, '(%s %s %s)' % (l, op, r), '(%s %s %s)' % (l, op, r), next_shape())
        for _ in range(4 if quick else 16):
            o1, o2 = rnd.choice(cmpops), rnd.choice(cmpops)
            lg = rnd.choice(['&&', '||'])
            f = '((a %s b) %s (cc %s s1))' % (o1, lg, o2)
            if rnd.random() < 0.4:
                f = '(!%s)' % f
            addb(tk, tn, f, f, next_shape())
        addb(tk, tn, '((a + b) < (cc * s1))', '((a + b) < (cc * s1))', next_shape())
        if isfloat:
            for fn in ['isinf', 'isnan', 'isfinite']:
                addb(tk, tn, '%s(a)' % fn, 'std::%s(a)' % fn, next_shape())
                addb(tk, tn, '%s(a / b)' % fn, 'std::%s(a / b)' % fn, next_shape())
        # D/E. every size 1..35 for scalar assignment and a few simple trees
        lo_hi = [(1, 12), (13, 24), (25, 35)]
        for lo, hi in lo_hi:
            key = 'C02|scalar-assign-allsizes|%s|%d-%d' % (tk, lo, hi)
            code = ('template <size_t N> struct VP_SA_%s_%d { static void go(vp::Ctx& c) { vp::c02::scalar_assign<%s, N>(c); } };\n'
                    'static void @FN@(vp::Ctx& c) { vp::c02::ForSizes<VP_SA_%s_%d, %d, %d>::go(c); }\nVP_CASE("@KEY@", @FN@);'
                    % (tk, lo, tn, tk, lo, lo, hi))
            cases[key] = Case(key, code)
        for shp in [(3, 5), (2, 3, 4)]:
            key = 'C02|scalar-assign|%s|%s' % (tk, 'x'.join(map(str, shp)))
            cases[key] = Case(key, 'VP_CASE("@KEY@", vp::c02::scalar_assign<%s, %s>);' % (tn, dims_str(shp)))
        simple = [('(a + b)', '(a + b)', []), ('(-a)', '(-a)', []), ('(a * s1)', '(a * s1)', []), ('abs(a)', 'std::abs(a)', []),
                  ('(s1 - a)', '(s1 - a)', [])]
        if isfloat:
            simple += [('(a / b)', '(a / b)', ['F_DIV']), ('sqrt(abs(a))', 'std::sqrt(std::abs(a))', [])]
        else:
            simple += [('(a / b)', '(a / b)', ['F_DIV'])]
        for si, (f, s, fl) in enumerate(simple):
            if quick and si % 2 == (seed % 2) and si > 1:
                continue
            for lo, hi in lo_hi:
                key = 'C02|allsizes|%s|%d-%d|%s' % (tk, lo, hi, f.replace(' ', ''))
                flags = '|'.join((['F_REALS', 'F_SPECIALS'] if isfloat else []) + fl) or '0'
                nm = 'VP_AS_%s_%d_%d' % (tk, si, lo)
                code = ('template <size_t N> struct %s { static void go(vp::Ctx& c) { using namespace Fastor; using namespace vp::c02; using T = %s;\n'
                        '  run<T, 1000, %s, N>(c, [](const auto& a, const auto& b, const auto& cc, T s1, T s2) { return %s; },\n'
                        '    [](T a, T b, T cc, T s1, T s2) -> T { return (T)(%s); }); } };\n'
                        'static void @FN@(vp::Ctx& c) { vp::c02::ForSizes<%s, %d, %d>::go(c); }\nVP_CASE("@KEY@", @FN@);'
                        % (nm, tn, flags, f, s, nm, lo, hi))
                cases[key] = Case(key, code)
    allc = [cases[k] for k in sorted(cases)]
    rnd.shuffle(allc)
    # heavy all-sizes cases get their own small TUs
    heavy = [c for c in allc if 'allsizes' in c.key]
    light = [c for c in allc if 'allsizes' not in c.key]
    tus = [TU('c02_%03d' % i, ch, headers=['vp_c02.h']) for i, ch in enumerate(chunk(light, 14))]
    tus += [TU('c02h_%03d' % i, ch, headers=['vp_c02.h'], weight=1) for i, ch in enumerate(chunk(heavy, 2))]
    off = ('-ffp-contract=off', '-DVP_FP_CONTRACT_OFF')
    if quick:
        cfgs = [Cfg('sse2', '14', 'O2', extra=off), Cfg('avx2', '14', 'O2', extra=off), Cfg('avx512', '14', 'O2', extra=off),
                Cfg('avx512', '14', 'O1', san='asan', extra=off)]
    else:
        cfgs = []
        for isa in ('scalar', 'sse2', 'sse42', 'avx', 'avx2', 'avx512', 'avx512f'):
            cfgs.append(Cfg(isa, '14', 'O2', extra=off))
            cfgs.append(Cfg(isa, '17', 'O3', extra=off))
        cfgs += [Cfg('sse2', '14', 'O0', extra=off), Cfg('avx2', '14', 'O0', extra=off), Cfg('avx512', '17', 'O2', extra=off),
                 Cfg('avx2', '14', 'O2', macros=('FASTOR_USE_VECTORISED_EXPR_ASSIGN',), extra=off)]
        for isa in ('sse2', 'avx2', 'avx512'):
            cfgs.append(Cfg(isa, '17', 'O1', san='asan', extra=off))
            cfgs.append(Cfg(isa, '14', 'O2', cxx='clang++', extra=off))
    return tus, cfgs


TECHNIQUE = 'runtime monitoring: differential oracle -- each generated expression tree is evaluated by the library (5 assignment forms, 3 evaluator entry points, Tensor/TensorMap/view destinations) and by the same tree printed as scalar C++; bitwise comparison per flat position with body/tail attribution; canaries, guard pages, ASan/UBSan'
LEVEL_TEXT = ('Exploration over generated programs: hundreds of expression trees per element type (thousands in the thorough tier) x sizes covering every residue of every '
              'vector width x value regimes incl. IEEE specials, each compared bitwise with the scalar evaluation of the same tree. Trees beyond the depth bound and '
              'operator combinations not drawn are not judged.')
LEVEL_NOTE = 'trusted: host scalar arithmetic and libm as reference; -ffp-contract=off removes compiler FMA contraction from both sides; generator prints both forms from one tree (a printer bug would affect both forms differently and show up as a mismatch)'
DESIGN_REF = 'DESIGN.md section 8 C02'
THOROUGH_NATIVE = True      # this module's own thorough product (covering sample of 320 pairs) was soaked to silence
