"""C09 -- lazy linear-algebra operators give the same result as their eager counterparts."""
import random
from ..core import Case, TU, chunk, Cfg, std_configs

ID = 'C09'
FT = [('float', 'f32'), ('double', 'f64')]
RULE = ('cases = (statement, element type, size). Statements "D op= expr" are generated from a grammar over square operands A,B,C, the destination D and a scalar with lazy nodes %, inv, trans, cof, adj '
        '(n<=4), solve(A,B), the scalar-valued det/norm/trace and element-wise + - * / and unary minus, to depth 3 (quick) / 4 (thorough), for all five assignment operators, with the destination also '
        'placed as an ELEMENT-WISE operand on the right-hand side (left, right, both, under a unary minus). Each statement is printed twice: with the lazy operators and with every lazy node replaced by its '
        'immediately evaluating function materialised into a named temporary left to right; both run on identical state and the destinations are compared -- numeric equality when the statement only '
        'multiplies/adds/transposes small integers, |lazy-eager| <= 512 n u max(1,|eager|) on well-conditioned real operands otherwise. Chains of 3-5 lazy products (optionally ending in a vector) with extent '
        'patterns from {1,2,3,8,9} are compared with the left-to-right eager product in the exact regime. A statement rejected by the compiler in EVERY configuration is counted rejected-by-design (the overload '
        'set does not cover every node combination). non-trivial = result has >=2 distinct values; distinct = case keys.')
ASSUMPTIONS = ['the eager form (named temporaries, left to right) is the reference', 'tolerance 512 n u for statements containing inverse/solve/determinant']


class N_:
    def __init__(self, lz, pre, eg, exact, usesD=False, scalar=False):
        self.lz, self.pre, self.eg, self.exact, self.usesD, self.scalar = lz, pre, eg, exact, usesD, scalar


def gen(rnd, depth, n, tmp, allowD):
    """returns a matrix-valued node"""
    if depth == 0:
        pool = ['A', 'B', 'C'] + (['D', 'D'] if allowD else [])
        x = rnd.choice(pool)
        return N_(x, [], x, True, x == 'D')
    r = rnd.random()
    if r < 0.30:     # lazy matrix product
        a, b = gen(rnd, depth - 1, n, tmp, False), gen(rnd, rnd.randrange(depth), n, tmp, False)
        if rnd.random() < 0.5:
            a, b = b, a
        t = 't%d' % len(tmp); tmp.append(t)
        return N_('(%s %% %s)' % (a.lz, b.lz), a.pre + b.pre + ['Tensor<T,N,N> %s = matmul(%s, %s);' % (t, a.eg, b.eg)], t, a.exact and b.exact)
    if r < 0.52:     # unary lazy
        a = gen(rnd, depth - 1, n, tmp, False)
        ops = [('trans', 'transpose', True), ('inv', 'inverse', False)] + ([('cof', 'cofactor', False), ('adj', 'adjoint', False)] if n <= 4 else [])
        lzf, egf, ex = rnd.choice(ops + [('trans', 'transpose', True)])
        t = 't%d' % len(tmp); tmp.append(t)
        return N_('%s(%s)' % (lzf, a.lz), a.pre + ['Tensor<T,N,N> %s = %s(%s);' % (t, egf, a.eg)], t, a.exact and ex)
    if r < 0.60:     # lazy solve
        a, b = gen(rnd, 0, n, tmp, False), gen(rnd, depth - 1, n, tmp, False)
        t = 't%d' % len(tmp); tmp.append(t)
        return N_('solve(%s, %s)' % (a.lz, b.lz), a.pre + b.pre + ['Tensor<T,N,N> %s = solve(evaluate(%s), evaluate(%s));' % (t, a.eg, b.eg)], t, False)
    if r < 0.68:     # scalar-valued function times a matrix
        a, b = gen(rnd, 0, n, tmp, False), gen(rnd, depth - 1, n, tmp, allowD)
        f = rnd.choice(['det', 'trace', 'norm'])
        eg = {'det': 'determinant', 'trace': 'trace', 'norm': 'norm'}[f]
        return N_('(%s * %s(%s))' % (b.lz, f, a.lz), a.pre + b.pre, '(%s * %s(%s))' % (b.eg, eg, a.eg), b.exact and f == 'trace', b.usesD)
    if r < 0.76:     # unary minus / scalar
        a = gen(rnd, depth - 1, n, tmp, allowD)
        if rnd.random() < 0.5:
            return N_('(-%s)' % a.lz, a.pre, '(-%s)' % a.eg, a.exact, a.usesD)
        return N_('(%s * s)' % a.lz, a.pre, '(%s * s)' % a.eg, a.exact, a.usesD)
    op = rnd.choice(['+', '-', '+', '-', '*'])
    a, b = gen(rnd, depth - 1, n, tmp, allowD), gen(rnd, rnd.randrange(depth), n, tmp, allowD)
    if rnd.random() < 0.5:
        a, b = b, a
    return N_('(%s %s %s)' % (a.lz, op, b.lz), a.pre + b.pre, '(%s %s %s)' % (a.eg, op, b.eg), a.exact and b.exact, a.usesD or b.usesD)


def generate(seed, tier):
    quick = tier == 'quick'
    rnd = random.Random(seed * 5003 + 77)
    cases = {}
    sizes = [2, 3, 4, 5, 7, 8, 9]
    nstm = 150 if quick else 1200
    attempts = 0
    ops = ['=', '+=', '-=', '*=', '/=']
    while len(cases) < nstm and attempts < nstm * 30:
        attempts += 1
        n = rnd.choice(sizes)
        tn, tk = FT[attempts % 2]
        tmp = []
        t = gen(rnd, rnd.choice([1, 2, 2, 3] if quick else [1, 2, 3, 3, 4]), n, tmp, True)
        if '%' not in t.lz and 'inv(' not in t.lz and 'trans(' not in t.lz and 'solve(' not in t.lz and 'cof(' not in t.lz and 'adj(' not in t.lz:
            continue
        op = rnd.choice(ops)
        if op in ('*=', '/=') and rnd.random() < 0.5:
            op = rnd.choice(['=', '+=', '-='])
        exact = t.exact and op != '/='
        key = 'C09|stmt|%s|n=%d|D%s%s' % (tk, n, op, t.lz.replace(' ', ''))
        if key in cases or len(key) > 200:
            continue
        pre = '\n        '.join(t.pre)
        code = ('static void @FN@(vp::Ctx& c) { using namespace Fastor; using T = %s; constexpr size_t N = %d;\n'
                '  vp::c09::stmt<T, N, %s>(c,\n'
                '    [](Tensor<T,N,N>& D, const Tensor<T,N,N>& A, const Tensor<T,N,N>& B, const Tensor<T,N,N>& C, T s) { D %s %s; },\n'
                '    [](Tensor<T,N,N>& D, const Tensor<T,N,N>& A, const Tensor<T,N,N>& B, const Tensor<T,N,N>& C, T s) {\n        %s\n        D %s %s; });\n}\nVP_CASE("@KEY@", @FN@);'
                % (tn, n, 'true' if exact else 'false', op, t.lz, pre, op, t.eg))
        cases[key] = Case(key, code)
    # explicit aliasing patterns of the destination used element-wise
    alias = [('D = D + A % B', []), ('D = A % B + D', []), ('D = A % B - D', []), ('D += D + A % B', []), ('D -= A % B * D', []), ('D = D * (A % B) + D', []), ('D = -D + trans(A)', []),
             ('D = trans(A) - D', []), ('D = inv(A) + D', []), ('D += D - inv(A)', []), ('D = D + A % B % C', []), ('D *= D + A % B', []), ('D = (A % B) * D - D', []), ('D = s * D + trans(A % B)', []),
             # the aliasing operand is an element-wise EXPRESSION of the destination, not the bare destination
             ('D += A % B - (D + D)', []), ('D -= A % B + D * C', []), ('D += A % B + abs(D)', []), ('D -= A % B - (C + D)', []), ('D += (D - C) + A % B', []), ('D -= inv(A) - (D * D)', []),
             ('D += trans(A) - (D + C)', []), ('D = A % B - (D + D)', []), ('D *= A % B - (D + D)', [])]
    for (stmt_txt, _) in alias:
        for n in ([3, 8] if quick else sizes):
            for tn, tk in FT:
                lz = stmt_txt
                op = [o for o in ['+=', '-=', '*=', '/=', '='] if (' %s ' % o) in lz][0]
                rhs = lz.split(' %s ' % op, 1)[1]
                # eager: materialise each lazy node
                eg = rhs.replace('trans(A % B)', 'ttab').replace('A % B % C', 'tabc').replace('(A % B)', 'tab').replace('A % B', 'tab').replace('trans(A)', 'tta').replace('inv(A)', 'tia')
                pre = []
                if 'tab' in eg:
                    pre.append('Tensor<T,N,N> tab = matmul(A, B);')
                if 'tabc' in eg:
                    pre.append('Tensor<T,N,N> tabc = matmul(tab, C);')
                if 'ttab' in eg:
                    pre.append('Tensor<T,N,N> ttab = transpose(tab);')
                if 'tta' in eg:
                    pre.append('Tensor<T,N,N> tta = transpose(A);')
                if 'tia' in eg:
                    pre.append('Tensor<T,N,N> tia = inverse(A);')
                exact = 'inv' not in lz and op != '/='
                key = 'C09|alias|%s|n=%d|%s' % (tk, n, lz.replace(' ', ''))
                code = ('static void @FN@(vp::Ctx& c) { using namespace Fastor; using T = %s; constexpr size_t N = %d;\n'
                        '  vp::c09::stmt<T, N, %s>(c,\n'
                        '    [](Tensor<T,N,N>& D, const Tensor<T,N,N>& A, const Tensor<T,N,N>& B, const Tensor<T,N,N>& C, T s) { %s; },\n'
                        '    [](Tensor<T,N,N>& D, const Tensor<T,N,N>& A, const Tensor<T,N,N>& B, const Tensor<T,N,N>& C, T s) { %s D %s %s; });\n}\nVP_CASE("@KEY@", @FN@);'
                        % (tn, n, 'true' if exact else 'false', lz, ' '.join(pre), op, eg))
                cases[key] = Case(key, code)
    # non-square statements: (lazy text, eager text, exact?) ; tab = matmul(A,B), tct = transpose(Ct), tbt = transpose(Bt)
    nsq = [('A % B', 'tab', True), ('E + A % B', 'E + tab', True), ('(A % B) * E', 'tab * E', True), ('trans(Ct)', 'tct', True), ('E - trans(Ct)', 'E - tct', True),
           ('(A % B) - trans(Ct)', 'tab - tct', True), ('s * (A % B)', 's * tab', True), ('trans(Ct) * E + A % B', 'tct * E + tab', True), ('E / trans(Ct)', 'E / tct', False),
           ('A % trans(Bt)', 'matmul(A, tbt)', True), ('s / trans(Ct)', 's / tct', False), ('trans(Ct) / E', 'tct / E', False), ('trans(Ct + Ct)', 'transpose(evaluate(Ct + Ct))', True),
           ('(A + A) % B', 'matmul(evaluate(A + A), B)', True), ('A % (B - B * s)', 'matmul(A, evaluate(B - B * s))', True)]
    shapes = [(2, 3, 4), (5, 2, 3), (3, 8, 9), (9, 4, 2), (1, 5, 7), (4, 4, 7), (7, 1, 2), (8, 3, 5), (3, 9, 16), (17, 2, 4)]
    allnsq = [(lz, eg, ex, op, shp) for (lz, eg, ex) in nsq for op in ops for shp in shapes]
    for (lz, eg, ex, op, (m, k, n)) in (rnd.sample(allnsq, 90) if quick else allnsq):
        tn, tk = FT[(m + k + len(lz) + len(op)) % 2]
        exact = ex and op != '/='
        key = 'C09|nsq|%s|%dx%dx%d|D%s%s' % (tk, m, k, n, op, lz.replace(' ', ''))
        args = 'Tensor<T,M,N>& D, const Tensor<T,M,K>& A, const Tensor<T,K,N>& B, const Tensor<T,N,K>& Bt, const Tensor<T,N,M>& Ct, const Tensor<T,M,N>& E, T s'
        pre = []
        if 'tab' in eg:
            pre.append('Tensor<T,M,N> tab = matmul(A, B);')
        if 'tct' in eg:
            pre.append('Tensor<T,M,N> tct = transpose(Ct);')
        if 'tbt' in eg:
            pre.append('Tensor<T,K,N> tbt = transpose(Bt);')
        code = ('static void @FN@(vp::Ctx& c) { using namespace Fastor; using T = %s; constexpr size_t M = %d, K = %d, N = %d;\n'
                '  vp::c09::stmt_nsq<T, M, K, N, %s>(c,\n'
                '    [](%s) { D %s %s; },\n'
                '    [](%s) { %s D %s %s; });\n}\nVP_CASE("@KEY@", @FN@);'
                % (tn, m, k, n, 'true' if exact else 'false', args, op, lz, args, ' '.join(pre), op, eg))
        cases[key] = Case(key, code)
    # product chains: extent patterns chosen from {1,2,3,8,9}
    ext = [1, 2, 3, 8, 9]
    for L, fn in ((3, 'chain3'), (4, 'chain4'), (5, 'chain5')):
        for _ in range((14 if L == 3 else 9) if quick else 60):
            d = [rnd.choice(ext) for _ in range(L + 1)]
            tn, tk = FT[rnd.randrange(2)]
            key = 'C09|%s|%s|%s' % (fn, tk, 'x'.join(map(str, d)))
            cases[key] = Case(key, 'VP_CASE("@KEY@", vp::c09::%s<%s,%s>);' % (fn, tn, ','.join(map(str, d))))
    for _ in range(8 if quick else 40):
        d = [rnd.choice(ext) for _ in range(3)]
        tn, tk = FT[rnd.randrange(2)]
        key = 'C09|chainv|%s|%s' % (tk, 'x'.join(map(str, d)))
        cases[key] = Case(key, 'VP_CASE("@KEY@", vp::c09::chainv<%s,%s>);' % (tn, ','.join(map(str, d))))
    allc = [cases[k] for k in sorted(cases)]
    rnd.shuffle(allc)
    tus = [TU('c09_%03d' % i, ch, headers=['vp_c09.h']) for i, ch in enumerate(chunk(allc, 8))]
    if quick:
        cfgs = [Cfg('sse2', '14', 'O2'), Cfg('avx2', '14', 'O2'), Cfg('avx512', '17', 'O2'), Cfg('avx512', '14', 'O1', san='asan')]
    else:
        cfgs = std_configs(tier)
    return tus, cfgs


def reject_ok(e):
    # the overload set of the lazy operators does not cover every node combination: a statement rejected in every configuration is by design
    return (e['k'].startswith('C09|stmt|') or e['k'].startswith('C09|alias|')) and e.get('all_rejected')


TECHNIQUE = 'runtime monitoring: differential oracle lazy-vs-eager on identical state for generated statements (5 assignment operators, destination aliased element-wise), exact regime where the statement is bilinear, association-independent exact regime for product chains; canary frames; ASan/UBSan; per-ISA builds'
LEVEL_TEXT = ('Exploration over generated programs: statements from a grammar of lazy and element-wise nodes x sizes {2..9} x float/double, each executed in its lazy and its fully materialised eager form; '
              'hand-listed aliasing patterns at every size; product chains over extent patterns.')
LEVEL_NOTE = 'trusted: the eager functions as reference (their own correctness is the business of C01/C10/C12/C14/C16)'
DESIGN_REF = 'DESIGN.md section 8 C09'
THOROUGH_NATIVE = True      # this module's own thorough product (covering sample of 320 pairs) was soaked to silence
