"""C18 -- overlapping slice assignment with noalias() acts on a snapshot of the source."""
import random
from ..core import Case, TU, chunk, Cfg, std_configs

ID = 'C18'
TYPES = [('float', 'f32'), ('double', 'f64'), ('int', 'i32'), ('long', 'i64')]
RULE = ('cases: (a) dynamic 1-D views, size-agnostic: per (type, N) ONE instantiation is driven at run time through all pairs (destination range, source range) of equal '
        'extent -- shifted, reversed order, interleaved strides, partial and perfect overlap, disjoint -- (strided to <=60000 pairs per instantiation, phase depends on the '
        'seed) x five operators x f in {identity, x*2+1, sum of two overlapping source slices}: A(r1).noalias() op= f(A(r2)); perfect overlap additionally WITHOUT noalias(); '
        '300 histories of three consecutive noalias() applications through the SAME view object (the flag has to re-arm); (b) dynamic 2-D / n-D: 3000 sampled range-tuple pairs '
        'biased towards overlap per instantiation; (c) compile-time fseq views of rank 1-3 from a generated family of shifted/strided pairs, incl. same-object repetition; '
        '(d) index-tensor views (duplicate-free destination, rotated/arbitrary source indices) and boolean-mask views. Oracle: result computed from a SNAPSHOT of the '
        'parent; the whole parent is compared bit-for-bit. non-trivial = at least one overlapping pair was driven; distinct = case keys.')
ASSUMPTIONS = ['range model shared with C04/C05', 'small-integer values (exact in all element types)']


def generate(seed, tier):
    quick = tier == 'quick'
    rnd = random.Random(seed * 8191 + 7)
    cases = {}
    ti = [rnd.randrange(4)]

    def ty():
        ti[0] += 1
        return TYPES[ti[0] % 4]

    def add(key, code):
        cases.setdefault(key, Case(key, code))

    for n in ([1, 2, 5, 9, 17] if quick else [1, 2, 3, 4, 5, 7, 8, 9, 13, 16, 17, 20, 33]):
        for tn, tk in ([ty()] if quick else TYPES):
            add('C18|dyn1d|%s|N=%d' % (tk, n), 'VP_CASE("@KEY@", vp::c18::dyn1d<%s,%d>);' % (tn, n))
    for dims in [(5, 9), (9, 17), (3, 4, 5), (2, 3, 8), (2, 3, 2, 3)] + ([] if quick else [(2, 2), (8, 8), (3, 2, 16)]):
        # rank >= 3 is its own view class (tensor_views_nd.h): a float and an integer type in every run
        for tn, tk in (([ty()] if len(dims) == 2 else [TYPES[seed % 2], TYPES[2 + seed % 2]]) if quick else TYPES):
            add('C18|dyn|%s|%s' % (tk, 'x'.join(map(str, dims))),
                'static void @FN@(vp::Ctx& c) { vp::c18::DYN<%s, Fastor::Index<%s>>::run(c); }\nVP_CASE("@KEY@", @FN@);' % (tn, ','.join(map(str, dims))))

    def fs(t):
        return 'vp::c04::FS<%d,%d,%d>' % t

    def rand_pair(N):
        """destination and source range of equal extent, biased towards overlap"""
        for _ in range(100):
            s1, s2 = rnd.choice([1, 1, 1, 2, 3]), rnd.choice([1, 1, 2])
            m = rnd.randrange(1, N + 1)
            span1, span2 = (m - 1) * s1 + 1, (m - 1) * s2 + 1
            if span1 > N or span2 > N:
                continue
            f1 = rnd.randrange(0, N - span1 + 1)
            f2 = min(max(0, f1 + rnd.choice([-3, -2, -1, 0, 1, 1, 2, 3])), N - span2)
            l1 = f1 + span1 if rnd.random() < 0.7 else min(N, f1 + span1 + (s1 - 1))
            l2 = f2 + span2
            if (f1, l1, s1) == (0, N, 1) or (f2, l2, s2) == (0, N, 1):
                continue      # a full range is the tensor itself, not a view
            return (f1, l1, s1), (f2, l2, s2)
        return (0, 1, 1), (0, 1, 1)

    for dims in [(9,), (17,), (33,), (5, 9), (9, 17), (3, 4, 5)]:
        for _ in range((8 if len(dims) == 1 else 5) if quick else 50):
            pr = [rand_pair(d) for d in dims]
            tn, tk = ty()
            key = 'C18|fixed|%s|%s|%s<-%s' % (tk, 'x'.join(map(str, dims)), ','.join('%d:%d:%d' % p[0] for p in pr), ','.join('%d:%d:%d' % p[1] for p in pr))
            add(key, 'static void @FN@(vp::Ctx& c) { vp::c18::FIX<%s, Fastor::Index<%s>, vp::c18::L<%s>, vp::c18::L<%s>>::run(c); }\nVP_CASE("@KEY@", @FN@);'
                % (tn, ','.join(map(str, dims)), ', '.join(fs(p[0]) for p in pr), ', '.join(fs(p[1]) for p in pr)))
    # the witness from the design round
    add('C18|fixed|f64|10|1:9:1<-0:8:1', 'static void @FN@(vp::Ctx& c) { vp::c18::FIX<double, Fastor::Index<10>, vp::c18::L<vp::c04::FS<1,9,1>>, vp::c18::L<vp::c04::FS<0,8,1>>>::run(c); }\nVP_CASE("@KEY@", @FN@);')
    for (n, k) in [(12, 4), (17, 9)] + ([] if quick else [(5, 5), (33, 16)]):
        tn, tk = ty()
        add('C18|random1d|%s|N=%d|K=%d' % (tk, n, k), 'VP_CASE("@KEY@", vp::c18::random1d<%s,%d,%d>);' % (tn, n, k))
    for (m, n) in [(3, 4), (5, 9)]:
        tn, tk = ty()
        add('C18|mask2d|%s|%dx%d' % (tk, m, n), 'VP_CASE("@KEY@", vp::c18::mask2d<%s,%d,%d>);' % (tn, m, n))
    allc = [cases[k] for k in sorted(cases)]
    rnd.shuffle(allc)
    tus = [TU('c18_%03d' % i, ch, headers=['vp_c18.h']) for i, ch in enumerate(chunk(allc, 5))]
    vec = ('FASTOR_USE_VECTORISED_EXPR_ASSIGN',)
    if quick:
        cfgs = [Cfg('sse2', '14', 'O2'), Cfg('avx2', '14', 'O2'), Cfg('avx512', '17', 'O2'), Cfg('avx2', '14', 'O2', macros=vec), Cfg('avx512', '14', 'O1', san='asan')]
    else:
        cfgs = std_configs(tier)
        for isa in ('sse2', 'avx2', 'avx512'):
            cfgs.append(Cfg(isa, '14', 'O2', macros=vec))
    return tus, cfgs


TECHNIQUE = 'runtime monitoring: snapshot-semantics oracle over runtime-enumerated pairs of overlapping ranges (dynamic views), generated compile-time pairs (fixed views), index-tensor and mask views, same-view-object histories; canary frames; ASan/UBSan'
LEVEL_TEXT = ('Exploration, near-exhaustive at run time for dynamic 1-D views (all equal-extent range pairs up to a stride cap), sampled for 2-D/n-D and for compile-time views; every assignment is compared '
              'against the result computed from a snapshot of the parent.')
LEVEL_NOTE = 'trusted: the snapshot model (10 lines) and the shared range model'
DESIGN_REF = 'DESIGN.md section 8 C18'
