"""C17 -- triangular matrix product equals the general product of triangular operands."""
import random
from ..core import Case, TU, chunk, std_configs, width, Cfg

ID = 'C17'
TYPES = [('float', 'f32'), ('double', 'f64'), ('int', 'i32'), ('long', 'i64')]
RULE = ('cases = (scalar type, M, K, N, lhs tag, rhs tag) over all nine General/Lower/Upper tag pairs; (M,N) cover 1..13 and the '
        'boundaries of every SIMD width being built (W-1, W, W+1, 2W-1, 2W, 2W+1, 2W+3), K in {1,2,3,5,8,9,13} so that square and '
        'trapezoidal operands occur; operands hold non-zero small integers inside the tagged triangle and exact zeros outside; every '
        'element of the painted+framed MxN result is compared with the naive general product (numeric equality), and a generic-real '
        'draw is judged with K*eps*sum|a||b|; plus the 1-D vector overloads. non-trivial = reference has >=2 distinct values; distinct = case keys.')
ASSUMPTIONS = ['naive triple-loop reference (vp_c01.h)', 'operands are exactly zero outside the tagged triangle, as the property requires']
TAGS = ['G', 'L', 'U']


def generate(seed, tier):
    quick = tier == 'quick'
    rnd = random.Random(seed * 31337 + 5)
    cases = {}

    def add(tn, tk, m, k, n, lt, rt):
        key = 'C17|tmm|%s|%dx%dx%d|%s%s' % (tk, m, k, n, TAGS[lt], TAGS[rt])
        cases.setdefault(key, Case(key, 'VP_CASE("@KEY@", vp::c17::tmm<%s,%d,%d,%d,%d,%d>);' % (tn, m, k, n, lt, rt)))

    isas = ['sse2', 'avx2', 'avx512']
    Ks = [1, 2, 3, 5, 8, 9, 13]
    for tn, tk in TYPES:
        dims = set(range(1, 14))
        for isa in isas:
            w = width(tn, isa)
            if w > 1:
                dims.update({w - 1, w, w + 1, 2 * w - 1, 2 * w, 2 * w + 1, 2 * w + 3})
        dims = sorted(d for d in dims if d >= 1)
        main = tk in ('f32', 'f64')
        per_pair = (30 if main else 14) if quick else (80 if main else 40)
        for lt in range(3):
            for rt in range(3):
                # square cases exercise the triangle logic most directly
                sq = rnd.sample(dims, min(len(dims), 4 if quick else 12))
                for s in sq:
                    add(tn, tk, s, s, s, lt, rt)
                for _ in range(per_pair):
                    m, n = rnd.choice(dims), rnd.choice(dims)
                    k = rnd.choice(Ks + [m, n])
                    add(tn, tk, m, k, n, lt, rt)
        for lt in range(3):
            for (m, k) in [(3, 3), (5, 8), (9, 4), (17, 17)]:
                key = 'C17|tmv|%s|%dx%d|%s' % (tk, m, k, TAGS[lt])
                cases[key] = Case(key, 'VP_CASE("@KEY@", vp::c17::tmv<%s,%d,%d,%d>);' % (tn, m, k, lt))
                key = 'C17|tvm|%s|%dx%d|%s' % (tk, k, m, TAGS[lt])
                cases[key] = Case(key, 'VP_CASE("@KEY@", vp::c17::tvm<%s,%d,%d,%d>);' % (tn, k, m, lt))
    allc = [cases[k] for k in sorted(cases)]
    rnd.shuffle(allc)
    tus = [TU('c17_%03d' % i, ch, headers=['vp_c17.h']) for i, ch in enumerate(chunk(allc, 40))]
    cfgs = std_configs(tier)
    if not quick:
        for m in ('FASTOR_MATMUL_OUTER_BLOCK_SIZE=1', 'FASTOR_MATMUL_OUTER_BLOCK_SIZE=3', 'FASTOR_MATMUL_INNER_BLOCK_SIZE=1', 'FASTOR_MATMUL_INNER_BLOCK_SIZE=3'):
            for isa in ('avx2', 'avx512'):
                cfgs.append(Cfg(isa, '14', 'O2', macros=(m,), only_tus='c17_00*'))
    return tus, cfgs


TECHNIQUE = 'runtime monitoring: reference-model oracle (naive general product, exact small-integer regime + forward-bound regime) over generated (shape, tag pair) instantiations, painted/framed destination, ASan/UBSan, per-ISA builds'
LEVEL_TEXT = ('Exploration: all nine tag pairs x generated shapes around every vector-width boundary x 4 scalar types, executed per ISA and compared element-wise '
              'with the naive product; unwritten result elements are detected by painting. Shapes outside the generated set are not judged.')
LEVEL_NOTE = 'trusted: naive reference; exactness of small-integer arithmetic; host executes all ISA levels'
DESIGN_REF = 'DESIGN.md section 8 C17'
