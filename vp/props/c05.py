"""C05 -- writing through a slice changes exactly the selected elements and nothing else."""
import random
from ..core import Case, TU, chunk, Cfg, std_configs
from .c04 import encodings

ID = 'C05'
TYPES = [('float', 'f32'), ('double', 'f64'), ('int', 'i32'), ('long', 'i64')]
RULE = ('cases: (a) dynamic 1-D destination views: per instantiated (N, m) EVERY (first,last,step) triple of extent m in three encodings x five operators x '
        'four right-hand-side kinds (scalar, tensor, independent equal-extent slice of another tensor, arithmetic expression) -- a rotating third per seed '
        'when the family exceeds 400 ranges; (b) histories: 60 sequences of 5-20 consecutive writes on the same tensor, including two writes through the same '
        'view object, model advanced in lock-step and compared after every step; (c) dynamic 2-D (1500 sampled (range pair, op, rhs kind) per instantiation, '
        'plus lazy-matmul right-hand sides) and n-D of rank 3-5 (500 per instantiation); (d) compile-time fseq destinations from a generated family, 5 ops x 4 '
        'rhs kinds; (e) TensorMap parents on guard pages; (f) scalar element assignment with negative indices. After every assignment the WHOLE parent is '
        'compared bit-for-bit with the model (selected elements = old op rhs, every other element unchanged) and the canary frame / guard slack around '
        'the parent is verified. non-trivial = parent larger than the selection or >1 element; distinct = case keys; sub_executions = assignments driven.')
ASSUMPTIONS = ['range convention model shared with C04', 'floating divisors for "/= scalar" are powers of two so that a reciprocal-multiply implementation is exact as well',
               'values are small integers so that every operator result is exact in all element types']


def generate(seed, tier):
    quick = tier == 'quick'
    rnd = random.Random(seed * 4099 + 101)
    cases = {}
    ti = [rnd.randrange(4)]

    def ty():
        ti[0] += 1
        return TYPES[ti[0] % 4]

    def add(key, code):
        cases.setdefault(key, Case(key, code))

    pairs = [(n, m) for n in range(1, 21) for m in range(1, n + 1)]
    keep = ([(n, m) for (n, m) in pairs if n <= 4] + rnd.sample([p for p in pairs if p[0] > 4], 26)) if quick else pairs
    for (n, m) in keep:
        tn, tk = ty()
        add('C05|write1d|%s|N=%d|m=%d' % (tk, n, m), 'VP_CASE("@KEY@", vp::c05::write1d<%s,%d,%d>);' % (tn, n, m))
    for n in ([3, 9, 17] if quick else [1, 2, 3, 5, 8, 9, 13, 16, 17, 20, 33]):
        for tn, tk in (TYPES if not quick else [ty()]):
            add('C05|history1d|%s|N=%d' % (tk, n), 'VP_CASE("@KEY@", vp::c05::history1d<%s,%d>);' % (tn, n))
            add('C05|write1d-map|%s|N=%d' % (tk, n), 'VP_CASE("@KEY@", vp::c05::write1d_map<%s,%d>);' % (tn, n))
    for (M, N) in [(7, 9), (5, 17), (12, 20)] + ([] if quick else [(3, 3), (8, 8), (16, 4)]):
        mn = [(m, n) for m in range(1, M + 1) for n in range(1, N + 1)]
        # (the views take a vector branch at run time when the last range is contiguous and a whole number of vectors long: two extra cases per parent fix n to such a length)
        vec_n = [(rnd.randrange(1, M + 1), n) for n in (2, 4, 8, 16) if n <= N]
        for (m, n) in rnd.sample(mn, min(len(mn), 5 if quick else 30)) + (rnd.sample(vec_n, min(2, len(vec_n))) if quick else vec_n):
            tn, tk = ty()
            add('C05|write2d|%s|%dx%d|%dx%d' % (tk, M, N, m, n), 'VP_CASE("@KEY@", vp::c05::write2d<%s,%d,%d,%d,%d>);' % (tn, M, N, m, n))
        for (m, n) in rnd.sample(mn, 2 if quick else 4):
            tn, tk = ty()
            add('C05|write2d-eval|%s|%dx%d|%dx%d' % (tk, M, N, m, n), 'VP_CASE("@KEY@", vp::c05::write2d_eval<%s,%d,%d,%d,%d>);' % (tn, M, N, m, n))
    # right-hand sides that need evaluation first go through their own overload of every operator in every view class
    for (N, m) in ([(9, 4), (17, 8), (5, 5)] if quick else [(9, 4), (17, 8), (5, 5), (12, 3), (20, 16), (7, 1)]):
        tn, tk = ty()
        add('C05|write1d-eval|%s|N=%d|m=%d' % (tk, N, m), 'VP_CASE("@KEY@", vp::c05::write1d_eval<%s,%d,%d>);' % (tn, N, m))
    for (N, F, L) in ([(9, 2, 7), (16, 0, 16)] if quick else [(9, 2, 7), (16, 0, 16), (17, 1, 17), (5, 4, 5)]):
        tn, tk = ty()
        add('C05|fixed1d-eval|%s|N=%d|%d:%d' % (tk, N, F, L), 'VP_CASE("@KEY@", vp::c05::fixed1d_eval<%s,%d,%d,%d>);' % (tn, N, F, L))
    for (M, N, F0, L0, F1, L1) in ([(5, 7, 1, 4, 2, 6), (8, 9, 0, 8, 1, 9)] if quick else [(5, 7, 1, 4, 2, 6), (8, 9, 0, 8, 1, 9), (4, 4, 0, 4, 0, 4), (3, 17, 2, 3, 0, 16)]):
        tn, tk = ty()
        add('C05|fixed2d-eval|%s|%dx%d|%d:%d,%d:%d' % (tk, M, N, F0, L0, F1, L1), 'VP_CASE("@KEY@", vp::c05::fixed2d_eval<%s,%d,%d,%d,%d,%d,%d>);' % (tn, M, N, F0, L0, F1, L1))
    for dims in [(4, 5, 6), (3, 4, 2, 5), (2, 3, 2, 3, 4), (5, 2, 9), (3, 4, 16), (2, 2, 3, 8), (2, 3, 33)]:
        for rep in range(2 if quick else 8):
            ms = [rnd.randrange(1, d + 1) for d in dims]
            if rep % 2 == 1:
                # the n-D views switch to a vector branch at run time when the last range is contiguous and a whole number of vectors long:
                # every other case fixes the last extent to a multiple of a vector width and leaves room for stepped leading ranges
                ms[-1] = rnd.choice([m for m in (2, 4, 8, 16, 32) if m <= dims[-1]])
                ms[0] = max(1, min(ms[0], (dims[0] + 1) // 2))
            tn, tk = ty()
            add('C05|writend|%s|%s|%s' % (tk, 'x'.join(map(str, dims)), 'x'.join(map(str, ms))),
                'static void @FN@(vp::Ctx& c) { vp::c05::ND<%s, Fastor::Index<%s>, Fastor::Index<%s>>::run(c); }\nVP_CASE("@KEY@", @FN@);'
                % (tn, ','.join(map(str, dims)), ','.join(map(str, ms))))

    def fixed_case(dims, triples):
        tn, tk = ty()
        key = 'C05|fixed|%s|%s|%s' % (tk, 'x'.join(map(str, dims)), ','.join('%d:%d:%d' % t for t in triples))
        add(key, 'static void @FN@(vp::Ctx& c) { vp::c05::FIX<%s, Fastor::Index<%s>, %s>::run(c); }\nVP_CASE("@KEY@", @FN@);'
            % (tn, ','.join(map(str, dims)), ', '.join('vp::c04::FS<%d,%d,%d>' % t for t in triples)))

    allr1 = []
    for N in (1, 2, 3, 5, 8, 9, 17):
        for s in range(1, N + 1):
            for f in range(N):
                for l in range(f + 1, N + 1):
                    for (F, L) in encodings(f, l, N, rnd):
                        allr1.append((N, (F, L, s)))
        allr1.append((N, (-1, 0, 1)))
    for (N, t) in (rnd.sample(allr1, 40) if quick else rnd.sample(allr1, 600)):
        fixed_case((N,), [t])

    def rand_triple(N):
        if rnd.random() < 0.08:
            return (-1, 0, 1)
        f = rnd.randrange(N)
        l = rnd.randrange(f + 1, N + 1)
        if (f, l) == (0, N) and rnd.random() < 0.7:       # a full range returns the tensor itself, keep a few
            l = max(f + 1, l - 1)
        s = rnd.randrange(1, max(2, (l - f)) + 1) if rnd.random() < 0.6 else 1
        return rnd.choice(encodings(f, l, N, rnd)) + (s,)

    for dims in [(5, 7), (8, 9), (3, 4, 5), (2, 3, 4, 3), (16, 17), (4, 8)]:
        for _ in range(4 if quick else 30):
            fixed_case(dims, [rand_triple(d) for d in dims])
    for dims in [(7,), (3, 5), (2, 3, 4), (3, 2, 4, 2), (2, 2, 3, 2, 2)]:
        tn, tk = ty()
        add('C05|scalar-assign|%s|%s' % (tk, 'x'.join(map(str, dims))),
            'static void @FN@(vp::Ctx& c) { vp::c05::SC<%s,%s>::run(c); }\nVP_CASE("@KEY@", @FN@);' % (tn, ','.join(map(str, dims))))
    allc = [cases[k] for k in sorted(cases)]
    rnd.shuffle(allc)
    tus = [TU('c05_%03d' % i, ch, headers=['vp_c05.h']) for i, ch in enumerate(chunk(allc, 8))]
    vec = ('FASTOR_USE_VECTORISED_EXPR_ASSIGN',)
    if quick:
        cfgs = [Cfg('sse2', '14', 'O2'), Cfg('avx2', '14', 'O2'), Cfg('avx512', '17', 'O2'), Cfg('avx2', '14', 'O2', macros=vec), Cfg('avx512', '14', 'O2', macros=vec),
                Cfg('avx512', '14', 'O1', san='asan')]
    else:
        cfgs = std_configs(tier)
        for isa in ('sse2', 'avx', 'avx2', 'avx512', 'avx512f'):
            cfgs.append(Cfg(isa, '14', 'O2', macros=vec))
        cfgs.append(Cfg('avx2', '17', 'O1', san='asan', macros=vec))
    return tus, cfgs


TECHNIQUE = 'runtime monitoring: frame-condition oracle -- plain-array model of "selected = old op rhs, everything else unchanged" compared with the whole parent after every slice assignment; runtime-exhaustive ranges, lock-step write histories, canary frames and guard pages, with and without FASTOR_USE_VECTORISED_EXPR_ASSIGN, ASan/UBSan'
LEVEL_TEXT = ('Exploration, exhaustive at run time within each instantiated shape: all ranges x 5 operators x 4 right-hand-side kinds for 1-D, sampled for 2-D/n-D, generated compile-time families, '
              'write histories; every assignment is followed by a bit-for-bit comparison of the entire parent and of the memory around it.')
LEVEL_NOTE = 'trusted: the range model (shared with C04) and the 5-line operator model'
DESIGN_REF = 'DESIGN.md section 8 C05'
THOROUGH_NATIVE = True      # this module's own thorough product (covering sample of 320 pairs) was soaked to silence
