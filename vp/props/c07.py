"""C07 -- no operation touches memory outside its operands, for any shape or alignment."""
import random, importlib, fnmatch
from ..core import Case, TU, chunk, Cfg

ID = 'C07'
TYPES = [('float', 'f32'), ('double', 'f64'), ('int', 'i32'), ('long', 'i64')]
CORPUS = ['c01', 'c02', 'c03', 'c04', 'c05', 'c08', 'c09', 'c10', 'c11', 'c12', 'c13', 'c14', 'c15', 'c16', 'c17', 'c18', 'c19', 'c20']
RULE = ('three placements: (P1) a seeded sample of the generated driver programs of every other property (matmul, element-wise, einsum, views read/write/noalias, index/mask views, SIMD types, lazy operators, '
        'inverse/LU/solve/QR, permute/transpose, networks, reductions, tmatmul, maps) rebuilt under ASan+UBSan at sse2/avx2/avx512 -O1 and avx2 -O2 -- here ONLY memory events are judged: sanitizer reports, '
        'signals, canary or guard-slack changes, hangs, and allocations observed while a library call is in flight (global operator new/delete and the malloc family are interposed in the un-sanitised builds); '
        '(P2) dedicated TensorMap workloads (element-wise chains, reductions, strided slices incl. the last element, matmul/transpose/trans with wrapped operands AND wrapped results, row/column views) over '
        'buffers flush against PROT_NONE pages, head- and tail-flush, at every sizeof(T)-multiple misalignment 0..63, in un-sanitised -O2/-O3 builds of every ISA; (P3) the same on exact-size heap blocks '
        'under ASan; (P4) with -DFASTOR_ENABLE_RUNTIME_CHECKS=1 every indexing form with an index of dim, dim+1, -dim-1 and +-2^20 on every axis must throw while the tensor sits against a guard page. '
        'Sizes emphasise non-multiples of every vector width. non-trivial = any; distinct = case keys.')
ASSUMPTIONS = ['ASan red zones and guard pages detect adjacent overruns only; intra-object and far out-of-bounds accesses are not visible',
               'value mismatches in the sampled corpus are the business of the owning property and are ignored here']

MEMORY_MODES = ('canary-changed', 'guard-slack-changed', 'hang', 'out-of-range-index-not-rejected')


def violation(e):
    st, mode = e.get('st'), e.get('mode') or ''
    if e.get('k', '').startswith('C07|'):
        if st in ('bad', 'crash', 'sanitizer', 'exc', 'garbled') or e.get('nb', 0) > 0:
            return (mode or st, e.get('fb', ''))
    if st in ('crash', 'sanitizer'):
        return (mode or st, e.get('fb', ''))
    if mode in MEMORY_MODES or mode.startswith('signal-') or mode.startswith('asan:') or mode.startswith('ubsan:'):
        return (mode, e.get('fb', ''))
    if e.get('allocs', 0) > 0 and st != 'exc':
        return ('allocation-in-library', '%d allocation(s) while a library call was in flight (%s)' % (e['allocs'], e.get('k')))
    return None


def reject_ok(e):
    if e['k'].startswith('C07|map-rejects|'):
        return bool(e.get('all_rejected'))
    return not e['k'].startswith('C07|')      # acceptance of the sampled corpus is judged by its owner / by C06


def generate(seed, tier):
    quick = tier == 'quick'
    rnd = random.Random(seed * 3001 + 23)
    tus = []
    # (P1) union corpus sample
    for name in CORPUS:
        try:
            mod = importlib.import_module('vp.props.' + name)
        except ImportError:
            continue
        otus, _ = mod.generate(seed, 'quick')
        otus = [t for t in otus if t.weight == 1]
        take = rnd.sample(otus, min(len(otus), 2 if quick else 8))
        for t in take:
            cs = t.cases if len(t.cases) <= (12 if quick else 40) else rnd.sample(t.cases, 12 if quick else 40)
            tus.append(TU('corpus_' + t.name, cs, headers=t.headers, weight=t.weight, pre=t.pre, only_cfgs=('*asan*', 'gcc.avx2.14.O3') if quick else None))     # sanitizer builds + one optimised build with the allocation monitor armed
    # (P2)-(P4) dedicated
    cases = []
    sizes = [1, 2, 3, 5, 7, 9, 15, 17, 31, 33]
    for i, n in enumerate(sizes):
        for tn, tk in ([TYPES[i % 4], TYPES[(i + 2) % 4]] if quick else TYPES):
            cases.append(Case('C07|map1d|%s|%d' % (tk, n), 'VP_CASE("@KEY@", vp::c07::map1d<%s,%d>);' % (tn, n)))
    for i, (m, k, n) in enumerate([(1, 1, 1), (3, 3, 3), (5, 3, 7), (2, 9, 17), (7, 5, 15), (9, 2, 33), (17, 3, 5)]):
        for tn, tk in ([TYPES[i % 4]] if quick else TYPES):
            cases.append(Case('C07|map2d|%s|%dx%dx%d' % (tk, m, k, n), 'VP_CASE("@KEY@", vp::c07::map2d<%s,%d,%d,%d>);' % (tn, m, k, n)))
    for i, shp in enumerate([(7,), (3, 5), (2, 3, 4), (2, 3, 2, 3), (2, 2, 3, 2, 2), (2, 2, 2, 2, 2, 3)]):
        tn, tk = TYPES[i % 4]
        cases.append(Case('C07|bounds|%s|%s' % (tk, 'x'.join(map(str, shp))),
                          'static void @FN@(vp::Ctx& c) { vp::c07::BOUNDS<%s,%s>::run(c); }\nVP_CASE("@KEY@", @FN@);' % (tn, ','.join(map(str, shp)))))
    cases.append(Case('C07|map-rejects|f64|map(seq)+=map(seq)', 'VP_CASE("@KEY@", vp::c07::map1d_slice_slice<double,9>);'))
    rnd.shuffle(cases)
    tus += [TU('c07_%03d' % i, ch, headers=['vp_c07.h']) for i, ch in enumerate(chunk(cases, 6))]
    if quick:
        cfgs = [Cfg('sse2', '14', 'O1', san='asan'), Cfg('avx2', '14', 'O2', san='asan'), Cfg('avx512', '17', 'O1', san='asan'),
                Cfg('sse2', '14', 'O2', only_tus='c07_*'), Cfg('avx2', '14', 'O3'), Cfg('avx512', '17', 'O2', only_tus='c07_*'),
                Cfg('avx2', '14', 'O2', checks=True, only_tus='c07_*')]
    else:
        cfgs = [Cfg(isa, '17', 'O1', san='asan') for isa in ('sse2', 'avx2', 'avx512')] + [Cfg('avx2', '14', 'O2', san='asan'), Cfg('avx512', '14', 'O2', san='asan')]
        for isa in ('scalar', 'sse2', 'sse42', 'avx', 'avx2', 'avx512', 'avx512f'):
            cfgs += [Cfg(isa, '14', 'O2'), Cfg(isa, '17', 'O3')]
        cfgs += [Cfg('sse2', '14', 'O2', checks=True, only_tus='c07_*'), Cfg('avx512', '17', 'O2', checks=True, only_tus='c07_*'), Cfg('avx2', '14', 'O1', san='asan', checks=True, only_tus='c07_*')]
        cfgs += [Cfg('avx2', '17', 'O1', san='asan', cxx='clang++', only_tus='c07_*')]
    return tus, cfgs


TECHNIQUE = 'runtime monitoring: AddressSanitizer+UBSan over a sample of every property\'s driver corpus, hardware guard pages around wrapped buffers at every misalignment in optimised un-sanitised builds, canary frames, interposed allocator counting allocations during library calls, bounds-check exception monitor'
LEVEL_TEXT = ('Exploration: every operation family is executed under ASan/UBSan at three ISA levels and on guard-page-backed external buffers at all misalignments on every ISA; only executions the workload reaches are covered, '
              'and only adjacent out-of-bounds accesses are visible to red zones / guard pages.')
LEVEL_NOTE = 'trusted: ASan/UBSan runtimes, mprotect guard pages, the allocator interposition (glibc __libc_* entry points)'
DESIGN_REF = 'DESIGN.md section 8 C07'
