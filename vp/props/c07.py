"""C07 -- no operation touches memory outside its operands, for any shape or alignment."""
import random, importlib, fnmatch
from ..core import Case, TU, chunk, Cfg

ID = 'C07'
TYPES = [('float', 'f32'), ('double', 'f64'), ('int', 'i32'), ('long', 'i64')]
CT = [('std::complex<float>', 'c32'), ('std::complex<double>', 'c64')]
CORPUS = ['c01', 'c02', 'c03', 'c04', 'c05', 'c08', 'c09', 'c10', 'c11', 'c12', 'c13', 'c14', 'c15', 'c16', 'c17', 'c18', 'c19', 'c20']
RULE = ('three placements: (P1) a seeded sample of the generated driver programs of every other property (matmul, element-wise, einsum, views read/write/noalias, index/mask views, SIMD types, lazy operators, '
        'inverse/LU/solve/QR, permute/transpose, networks, reductions, tmatmul, maps) rebuilt under ASan+UBSan at sse2/avx2/avx512 -O1 and avx2 -O2 -- here ONLY memory events are judged: sanitizer reports, '
        'signals, canary or guard-slack changes, hangs, and allocations observed while a library call is in flight (global operator new/delete and the malloc family are interposed in the un-sanitised builds); '
        '(P2) dedicated TensorMap workloads (element-wise chains, reductions, strided slices incl. the last element, matmul/transpose/trans with wrapped operands AND wrapped results, row/column views) over '
        'buffers flush against PROT_NONE pages, head- and tail-flush, at every sizeof(T)-multiple misalignment 0..63, in un-sanitised -O2/-O3 builds of every ISA; (P3) the same on exact-size heap blocks '
        'under ASan; (P4) with -DFASTOR_ENABLE_RUNTIME_CHECKS=1 every indexing form with an index of dim, dim+1, -dim-1 and +-2^20 on every axis must throw while the tensor sits against a guard page. '
        'Sizes emphasise non-multiples of every vector width. non-trivial = any; distinct = case keys.')
ASSUMPTIONS = ['ASan red zones and guard pages detect adjacent overruns only; intra-object and far out-of-bounds accesses are not visible',
               'value mismatches in the sampled corpus are the business of the owning property and are ignored here']

MEMORY_MODES = ('canary-changed', 'guard-slack-changed', 'hang', 'out-of-range-index-not-rejected')


def violation(e):
    st, mode = e.get('st'), e.get('mode') or ''
    if e.get('k', '').startswith('C07|'):
        if st in ('bad', 'crash', 'sanitizer', 'exc', 'garbled') or e.get('nb', 0) > 0:
            return (mode or st, e.get('fb', ''))
    if st in ('crash', 'sanitizer'):
        return (mode or st, e.get('fb', ''))
    if mode in MEMORY_MODES or mode.startswith('signal-') or mode.startswith('asan:') or mode.startswith('ubsan:'):
        return (mode, e.get('fb', ''))
    if e.get('allocs', 0) > 0 and st != 'exc':
        return ('allocation-in-library', '%d allocation(s) while a library call was in flight (%s)' % (e['allocs'], e.get('k')))
    return None


def reject_ok(e):
    if e['k'].startswith('C07|map-rejects|'):
        return bool(e.get('all_rejected'))
    return not e['k'].startswith('C07|')      # acceptance of the sampled corpus is judged by its owner / by C06


# (quick, thorough) number of additional translation units per module built with guard-placed operands only
GUARDED = {'c01': (8, 40), 'c17': (4, 16), 'c14': (3, 12), 'c03': (3, 12), 'c16': (2, 8), 'c02': (2, 8), 'c10': (1, 6), 'c11': (1, 6), 'c12': (1, 6), 'c13': (1, 4)}


def generate(seed, tier):
    quick = tier == 'quick'
    rnd = random.Random(seed * 3001 + 23)
    tus = []
    # (P1) union corpus sample
    for name in CORPUS:
        try:
            mod = importlib.import_module('vp.props.' + name)
        except ImportError:
            continue
        otus, _ = mod.generate(seed, 'quick')
        otus = [t for t in otus if t.weight == 1]
        take = rnd.sample(otus, min(len(otus), 2 if quick else 8))
        for t in take:
            cs = t.cases if len(t.cases) <= (12 if quick else 40) else rnd.sample(t.cases, 12 if quick else 40)
            tus.append(TU('corpus_' + t.name, cs, headers=t.headers, weight=t.weight, pre=t.pre, only_cfgs=('*asan*', 'gcc.avx2.14.O3', '*GUARD*') if quick else None))     # sanitizer builds + one optimised build with the allocation monitor armed + guard-placed operands
        # hand-written kernels with shape-class-specific remainder code (matmul, tmatmul, transpose/permute, einsum, reductions, element-wise loops,
        # inverse/LU/solve/QR): a larger sample, built only in the optimised configurations that place every operand flush against guard pages
        if name in GUARDED:
            rest = [t for t in otus if t not in take]
            for t in rnd.sample(rest, min(len(rest), GUARDED[name][0 if quick else 1])):
                cs = t.cases if len(t.cases) <= (16 if quick else 40) else rnd.sample(t.cases, 16 if quick else 40)
                tus.append(TU('guarded_' + t.name, cs, headers=t.headers, weight=t.weight, pre=t.pre, only_cfgs=('*GUARD*',)))
    # (P2)-(P4) dedicated
    cases = []
    sizes = [1, 2, 3, 5, 7, 9, 15, 17, 31, 33]
    for i, n in enumerate(sizes):
        for tn, tk in ([TYPES[i % 4], TYPES[(i + 2) % 4]] if quick else TYPES):
            cases.append(Case('C07|map1d|%s|%d' % (tk, n), 'VP_CASE("@KEY@", vp::c07::map1d<%s,%d>);' % (tn, n)))
    for i, n in enumerate([1, 2, 3, 4, 5, 7, 8, 9, 16, 17]):
        for tn, tk in ([CT[(i + seed) % 2]] if quick else CT):
            cases.append(Case('C07|map1d-cplx|%s|%d' % (tk, n), 'VP_CASE("@KEY@", vp::c07::map1d_cplx<%s,%d>);' % (tn, n)))
    for i, (m, k, n) in enumerate([(1, 1, 1), (3, 3, 3), (5, 3, 7), (2, 9, 17), (7, 5, 15), (9, 2, 33), (17, 3, 5), (2, 2, 2), (4, 4, 4), (8, 8, 8), (16, 16, 16)]):
        for tn, tk in ([TYPES[(i + seed) % 4]] if quick and m != n else TYPES):
            cases.append(Case('C07|map2d|%s|%dx%dx%d' % (tk, m, k, n), 'VP_CASE("@KEY@", vp::c07::map2d<%s,%d,%d,%d>);' % (tn, m, k, n)))
    # owning tensors placed flush against guard pages: member functions / reductions for every size 1..33 (+ multiples and neighbours of 16),
    # rank-2 operations over the row/column classes of the small-matrix kernels
    osz = list(range(1, 34)) + [47, 48, 49, 63, 64, 65]
    for i, n in enumerate(osz):
        for tn, tk in ([TYPES[(i + seed) % 4]] if quick else TYPES):
            cases.append(Case('C07|own1d|%s|%d' % (tk, n), 'VP_CASE("@KEY@", vp::c07::own1d<%s,%d>);' % (tn, n)))
    sq = [1, 2, 3, 4, 5, 7, 8, 9] + ([] if quick else [6, 10, 12, 16, 17])      # (32/33 need >20 min of compile time per sanitised translation unit)
    shapes2 = [(n, n, n) for n in sq]
    # small-N matmul kernels: one hand-written row-remainder kernel per M mod 10 for N below / up to the vector width
    smalln = []
    for m in (1, 2, 3, 4, 5, 6, 7, 8, 9, 10, 11, 17, 27):
        for n in (1, 2, 3, 5, 6, 7):
            smalln.append((m, rnd.choice([2, 3, 4, 6, 8]), n))
        for n in (4, 8, 9, 15, 16, 17, 31):
            if m != n and (not quick or rnd.random() < 0.22):
                shapes2.append((m, rnd.choice([1, 2, 3, 4, 5, 8, 9]), n))
    for i, (m, k, n) in enumerate(shapes2):
        for tn, tk in ([TYPES[(i + seed) % 2], TYPES[2 + (i + seed) % 2]] if (quick and m != n) else ([TYPES[0], TYPES[1], TYPES[2 + i % 2]] if quick else TYPES)):
            cases.append(Case('C07|own2d|%s|%dx%dx%d' % (tk, m, k, n), 'VP_CASE("@KEY@", vp::c07::own2d<%s,%d,%d,%d>);' % (tn, m, k, n)))
    for i, (m, k, n) in enumerate(smalln):
        for tn, tk in ([TYPES[(i + seed) % 3]] if quick else TYPES):
            if m != n:
                cases.append(Case('C07|own2d|%s|%dx%dx%d' % (tk, m, k, n), 'VP_CASE("@KEY@", vp::c07::own2d<%s,%d,%d,%d>);' % (tn, m, k, n)))
    for i, shp in enumerate([(7,), (3, 5), (2, 3, 4), (2, 3, 2, 3), (2, 2, 3, 2, 2), (2, 2, 2, 2, 2, 3)]):
        tn, tk = TYPES[i % 4]
        cases.append(Case('C07|bounds|%s|%s' % (tk, 'x'.join(map(str, shp))),
                          'static void @FN@(vp::Ctx& c) { vp::c07::BOUNDS<%s,%s>::run(c); }\nVP_CASE("@KEY@", @FN@);' % (tn, ','.join(map(str, shp)))))
    cases.append(Case('C07|map-rejects|f64|map(seq)+=map(seq)', 'VP_CASE("@KEY@", vp::c07::map1d_slice_slice<double,9>);'))
    rnd.shuffle(cases)
    tus += [TU('c07_%03d' % i, ch, headers=['vp_c07.h']) for i, ch in enumerate(chunk(cases, 6))]
    if quick:
        cfgs = [Cfg('sse2', '14', 'O1', san='asan'), Cfg('avx2', '14', 'O2', san='asan'), Cfg('avx512', '17', 'O1', san='asan'),
                Cfg('sse2', '14', 'O2', only_tus='c07_*'), Cfg('avx2', '14', 'O3'), Cfg('avx512', '17', 'O2', only_tus='c07_*'),
                Cfg('avx2', '14', 'O2', checks=True, only_tus='c07_*')]
        cfgs += [Cfg(isa, std, 'O2', extra=('-DVP_GUARD_OPERANDS',), only_tus=('corpus_*', 'guarded_*')) for isa, std in (('sse2', '14'), ('avx2', '17'), ('avx512', '14'))]
    else:
        cfgs = [Cfg(isa, '17', 'O1', san='asan') for isa in ('sse2', 'avx2', 'avx512')] + [Cfg('avx2', '14', 'O2', san='asan'), Cfg('avx512', '14', 'O2', san='asan')]
        for isa in ('scalar', 'sse2', 'sse42', 'avx', 'avx2', 'avx512', 'avx512f'):
            cfgs += [Cfg(isa, '14', 'O2'), Cfg(isa, '17', 'O3')]
        cfgs += [Cfg('sse2', '14', 'O2', checks=True, only_tus='c07_*'), Cfg('avx512', '17', 'O2', checks=True, only_tus='c07_*'), Cfg('avx2', '14', 'O1', san='asan', checks=True, only_tus='c07_*')]
        cfgs += [Cfg('avx2', '17', 'O1', san='asan', cxx='clang++', only_tus='c07_*')]
        cfgs += [Cfg(isa, std, opt, extra=('-DVP_GUARD_OPERANDS',), only_tus=('corpus_*', 'guarded_*')) for isa, std, opt in (('scalar', '14', 'O2'), ('sse2', '14', 'O2'), ('sse42', '17', 'O3'), ('avx', '14', 'O2'), ('avx2', '17', 'O2'), ('avx512', '14', 'O2'), ('avx512f', '17', 'O3'), ('avx2', '14', 'O0'))]
    return tus, cfgs


TECHNIQUE = 'runtime monitoring: AddressSanitizer+UBSan over a sample of every property\'s driver corpus, hardware guard pages around wrapped buffers at every misalignment in optimised un-sanitised builds, canary frames, interposed allocator counting allocations during library calls, bounds-check exception monitor'
LEVEL_TEXT = ('Exploration: every operation family is executed under ASan/UBSan at three ISA levels and on guard-page-backed external buffers at all misalignments on every ISA; only executions the workload reaches are covered, '
              'and only adjacent out-of-bounds accesses are visible to red zones / guard pages.')
LEVEL_NOTE = 'trusted: ASan/UBSan runtimes, mprotect guard pages, the allocator interposition (glibc __libc_* entry points)'
DESIGN_REF = 'DESIGN.md section 8 C07'
