"""C01 -- matrix product equals the mathematical product (matmul, %, matvec, vecmat, outer, inner)."""
import random
from ..core import Case, TU, chunk, std_configs, width, Cfg

ID = 'C01'
TYPES = [('float', 'f32'), ('double', 'f64'), ('int', 'i32'), ('long', 'i64'),
         ('std::complex<float>', 'c32'), ('std::complex<double>', 'c64')]
RULE = ('cases = (form, scalar type, M, K, N) drawn from: the full box up to a bound, every N on both sides of every '
        'multiple (1..5) of every SIMD width (and half/quarter widths) of the ISAs built, crossed with M residues of the '
        'row-unroll factors (mod 10/5/4/2) and K in {1,2,3,8,9}, the float/double 2/3/4/8 specialisations, M*N*K<=27 tiny '
        'shapes, shapes beyond 5 widths with N mod W <=1 and >1, plus a seeded sample of larger shapes; each case runs '
        'eager matmul, lazy C=A%B, C+=A%B, C-=A%B on two independent small-integer draws (bitwise comparison, painted and '
        'framed destination) and one generic-real draw (bound K*eps*sum|a||b|). A case is non-trivial when its reference '
        'result has >=2 distinct element values (or is a true inner product) and every comparison was executed; distinct '
        '= distinct case keys.')
ASSUMPTIONS = ['the naive triple-loop reference in vp_c01.h is correct',
               'small-integer operands make every summation order/FMA contraction bit-identical (|x|<=7, K<=64)',
               'only instantiated shapes are judged; shapes outside the stated box are not covered']


def nset(tys, isas, tier):
    s = set()
    for ty in tys:
        for isa in isas:
            w = width(ty, isa)
            if w == 1:
                continue
            for ww in {w, max(w // 2, 1), max(w // 4, 1)}:
                for k in range(1, 6):
                    for d in (-1, 0, 1):
                        n = k * ww + d
                        if n >= 1:
                            s.add(n)
            s.update({5 * w + 2, 6 * w, 6 * w + 1, 6 * w + 3})
    return sorted(s)


def generate(seed, tier):
    rnd = random.Random(seed * 7919 + 1)
    quick = tier == 'quick'
    isas = ['sse2', 'avx2', 'avx512']
    cases = {}

    def add(form, tn, tk, *dims):
        key = 'C01|%s|%s|%s' % (form, tk, 'x'.join(map(str, dims)))
        if key in cases:
            return
        tmpl = {'mm': 'mm', 'mv': 'mv', 'vm': 'vm', 'outer': 'outer_case', 'inner': 'inner_case',
                'mmacc': 'mmacc', 'mvacc': 'mvacc', 'vmlazy': 'vmlazy'}[form]
        cases[key] = Case(key, 'VP_CASE("@KEY@", vp::c01::%s<%s,%s>);' % (tmpl, tn, ','.join(map(str, dims))))

    Ms_all = list(range(1, 22)) + [24, 25, 36]
    Ks = [1, 2, 3, 8, 9]
    for tn, tk in TYPES:
        main = tk in ('f32', 'f64')
        cplx = tk.startswith('c')
        # (i) small box
        B = 3 if (quick and main) else (2 if quick else (6 if main else 4))
        for m in range(1, B + 1):
            for k in range(1, B + 1):
                for n in range(1, B + 1):
                    add('mm', tn, tk, m, k, n)
        # specialisations for float/double: M==N in {2,3,4,8}, M!=K and M==K
        if main:
            for s in (2, 3, 4, 8):
                for k in (s, 1, 2, 3, 5, 8, 9):
                    add('mm', tn, tk, s, k, s)
        # (ii) N boundaries x M residues
        base_ty = {'c32': 'float', 'c64': 'double'}.get(tk, tn)
        ns = nset([base_ty], isas if quick else ['sse2', 'avx', 'avx2', 'avx512'], tier)
        if cplx:
            ns = [n for n in ns if n <= 12]       # complex: non-primitive generic kernel, no width dependence
        per_n = ((2 if main else 1) if quick else 8) if not cplx else 1
        mi = rnd.randrange(len(Ms_all))
        for n in ns:
            for _ in range(per_n):
                m = Ms_all[mi % len(Ms_all)]
                mi += 1
                k = Ks[rnd.randrange(len(Ks))]
                if quick and n > 40:
                    k = min(k, 3)
                add('mm', tn, tk, m, k, n)
        # each (N class, M) of the small-N kernels at least once per ISA width (main types; thorough all M)
        if not cplx:
            mlist = Ms_all if not quick else (list(range(1, 12)) if main else [1, 2, 3, 5, 7, 10, 11])
            for isa in (isas if quick else ['sse2', 'avx2', 'avx512']):
                w = width(base_ty, isa)
                for kcls in range(1, 6):
                    for m in mlist:
                        if quick and rnd.random() < (0.78 if main else 0.86):
                            continue
                        add('mm', tn, tk, m, Ks[rnd.randrange(3)], kcls * w)
                        if w > 2:
                            add('mm', tn, tk, m, Ks[rnd.randrange(3)], (kcls - 1) * w + rnd.randrange(1, w))
        # _matmul_base block classes: numSIMDRows in {1,2,3} (M%12==0 -> 3, M<2V -> 1, else 2), numSIMDCols in {2,3}
        # (N%(3V)==0 && M%(3V)==0 && N>24 -> 3), reached for N beyond the small-N kernels; plus their row/column remainders
        if not cplx:
            for isa in (isas if quick else ['sse2', 'avx2', 'avx512']):
                w = width(base_ty, isa)
                if w < 2:
                    continue
                n3 = 3 * w * max(2, -(-25 // (3 * w)))          # multiple of 3V, > 24 and > 5V
                if n3 <= 5 * w:
                    n3 += 3 * w
                must = [(3 * w, n3), (12 if 12 % (3 * w) == 0 else 3 * w * 4, n3), (12, 6 * w)]
                opt = [(m, n) for m in (3 * w, 6 * w, 12, 24, 2 * w + 3, w + 1, 4, 5, 13) for n in (6 * w, 6 * w + 1, 6 * w + w - 1, n3, n3 + 2)]
                pick = must + (rnd.sample(opt, (4 if main else 2)) if quick else opt)
                for (m, n) in pick:
                    if m * n <= 6000:
                        add('mm', tn, tk, m, rnd.choice([2, 3, 5]), n)
        # (iii) larger seeded sample
        for _ in range(6 if quick else 40):
            add('mm', tn, tk, rnd.randrange(5, 41), rnd.randrange(2, 20), rnd.randrange(5, 41))
        # matrix-vector / vector-matrix / outer / inner with 1-D tensors
        dims = [1, 2, 3, 4, 5, 7, 8, 9, 15, 16, 17, 31, 33] if not quick else [1, 2, 3, 4, 5, 8, 9, 16, 17]
        if cplx:
            dims = [1, 2, 3, 5]
        for m in dims:
            for k in rnd.sample(dims, min(len(dims), 3 if quick else 6)):
                add('mv', tn, tk, m, k)
                add('vm', tn, tk, k, m)
        for m in dims[:6]:
            for n in rnd.sample(dims, min(len(dims), 2 if quick else 5)):
                add('outer', tn, tk, m, n)
        for n in dims:
            add('inner', tn, tk, n)
        # lazy compound forms on a sample of the mm shapes; rejected-by-design forms kept as sentinels
        mmkeys = [k for k in sorted(cases) if k.startswith('C01|mm|%s|' % tk)]
        for k in rnd.sample(mmkeys, max(4, len(mmkeys) // (6 if quick else 3))):
            d = list(map(int, k.split('|')[3].split('x')))
            if cplx and len([x for x in cases if x.startswith('C01|mmacc|%s' % tk)]) >= 2:
                break
            add('mmacc', tn, tk, *d)
        if not cplx:
            for m in dims[:5]:
                add('mvacc', tn, tk, m, dims[(m * 3) % len(dims)])
        add('vmlazy', tn, tk, 3, 5)
    allc = [cases[k] for k in sorted(cases)]
    rnd.shuffle(allc)
    tus = [TU('c01_%03d' % i, ch, headers=['vp_c01.h']) for i, ch in enumerate(chunk(allc, 24))]
    cfgs = std_configs(tier)
    if not quick:
        # the documented register-block tuning macros select different hand-unrolled kernels
        for m in ('FASTOR_MATMUL_OUTER_BLOCK_SIZE=1', 'FASTOR_MATMUL_OUTER_BLOCK_SIZE=3', 'FASTOR_MATMUL_INNER_BLOCK_SIZE=1', 'FASTOR_MATMUL_INNER_BLOCK_SIZE=3',
                  'FASTOR_MATMUL_INNER_BLOCK_SIZE=4', 'FASTOR_MATMUL_INNER_BLOCK_SIZE=5'):
            for isa in ('sse2', 'avx2', 'avx512'):
                cfgs.append(Cfg(isa, '14', 'O2', macros=(m,), only_tus='c01_00*'))
    return tus, cfgs


# forms the library rejects by its own design in every configuration (counted, not judged)
REJECT_BY_DESIGN = [
    ('C01|vmlazy|*', 'INVALID MATMUL OPERANDS'),        # lazy 1-D vector % matrix: static_assert in BinaryMatMulOp
    ('C01|mmacc|c32|*', "no match for 'operator=='"),  # complex compound lazy matmul: `beta == 0` on std::complex
    ('C01|mmacc|c64|*', "no match for 'operator=='"),
    ('C01|mmacc|c32|*', 'invalid operands to binary expression'),
    ('C01|mmacc|c64|*', 'invalid operands to binary expression'),
    ('C01|outer|*|1x1', 'ambiguous'),                   # outer(Tensor<T,1>,Tensor<T,1>): two equally good overloads
]


def reject_ok(e):
    import fnmatch
    return any(fnmatch.fnmatchcase(e['k'], k) and d in e.get('diag', '') for k, d in REJECT_BY_DESIGN)

TECHNIQUE = 'runtime monitoring: reference-model oracle (bitwise, exact small-integer regime + forward-bound rounding regime) over generated instantiations of the real kernels, painted/framed destinations (canaries), ASan+UBSan build, per-ISA builds'
LEVEL_TEXT = ('Exploration: every generated (form, type, M, K, N) instantiation of the real matmul entry points is executed under sse2/avx2/avx512 '
              '(thorough: 7 ISAs x c++14/17 x O2/O3/O0, clang, 4 sanitizer builds) and every result element is compared with a naive reference; '
              'unwritten elements are detected by painting, stray writes by canaries and ASan. A shape outside the generated family is not judged.')
LEVEL_NOTE = 'trusted: the naive reference model, g++/clang++ code generation, this host executing all seven ISA levels; exact regime relies on small-integer operands being exactly representable'
DESIGN_REF = 'DESIGN.md section 8 C01'
THOROUGH_NATIVE = True      # this module's own thorough product (covering sample of 320 pairs) was soaked to silence
