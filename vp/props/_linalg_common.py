"""shared bits of the C10-C13 generators"""
from ..core import Cfg, std_configs

FT = [('float', 'f32'), ('double', 'f64')]


def la_configs(tier):
    if tier == 'quick':
        return [Cfg('sse2', '14', 'O2'), Cfg('avx2', '14', 'O2'), Cfg('avx512', '17', 'O2'), Cfg('avx512', '14', 'O1', san='asan')]
    return std_configs(tier)


def weight_for(n):
    return 1 if n <= 17 else (3 if n <= 33 else 8)
