"""C16 -- reductions, predicates and scalar-valued functions agree with their definitions."""
import random
from ..core import Case, TU, chunk, Cfg, std_configs

ID = 'C16'
TYPES = [('float', 'f32'), ('double', 'f64'), ('int', 'i32'), ('long', 'i64')]
RULE = ('cases: (a) sum/product/min/max/norm/inner on tensors, on lazy expressions (x*1, -(-x): element-preserving), on expressions that need evaluation first (trans(Xt), x%I, element-wise nodes around them; also trace and isequal) and as member functions, for rank-1 sizes 1..35 plus sizes 63..273 that take every rung of the unrolled 8V/4V/2V/V reduction ladders on every ABI (every residue of every '
        'vector width; rotating sample in the quick tier) and rank-2/3 shapes, under six sign patterns (all positive, all negative, mixed, ONE extreme element at EVERY position (runtime loop, both '
        'signs), all equal, containing +-0) in an exact small-integer regime and a generic-real regime; min/max must equal the model and be an element of the input; sums within n*u*sum|x|; '
        '(b) all_of/any_of/none_of over EVERY boolean pattern for n<=12 on Tensor<bool> and on boolean expressions, incl. none_of == !any_of; random patterns for larger n; (c) isequal / '
        'issymmetric / isorthogonal on constructed positive and negative instances with unit margins; trace; (d) determinant n=1..12 x {Simple, LU, QR}: closed forms (n<=4) on integer '
        'matrices exactly against Bareiss in __int128, factorisation-based ones on diagonally dominant matrices within 16 n^2 u cond(A) |det|. non-trivial = any; distinct = case keys.')
ASSUMPTIONS = ['fold definitions in vp_c16.h; exact Bareiss determinant; long-double Gauss-Jordan condition numbers', 'min/max on a (+0,-0) tie may return either zero']


def generate(seed, tier):
    quick = tier == 'quick'
    rnd = random.Random(seed * 7001 + 1)
    cases = {}

    def add(key, code):
        cases.setdefault(key, Case(key, code))

    sizes = list(range(1, 36))
    for tn, tk in TYPES:
        ss = sizes if not quick else sorted(set([1, 2, 3] + rnd.sample(sizes, 9)))
        # unrolled reduction loops (norm: 8V/4V/2V/V ladder, inner: 4V/2V/V) need sizes beyond 8 vectors of the widest ABI (16 floats): every rung taken, with remainders
        big = [63, 64, 65, 66, 72, 95, 96, 97, 112, 127, 128, 129, 130, 136, 143, 144, 145, 160, 176, 192, 200, 255, 256, 257, 273]
        ss = ss + (big if not quick else sorted(set(rnd.sample(big, 3) + [rnd.choice([128, 129, 136, 144, 145, 160, 176, 200])])))
        for n in ss:
            add('C16|red|%s|%d' % (tk, n), 'static void @FN@(vp::Ctx& c) { vp::c16::RED<%s,%d>::run(c); }\nVP_CASE("@KEY@", @FN@);' % (tn, n))
        for shp in ([(3, 5), (2, 3, 4)] if quick else [(3, 5), (2, 3, 4), (4, 4), (7, 9), (2, 2, 2, 3)]):
            add('C16|red|%s|%s' % (tk, 'x'.join(map(str, shp))), 'static void @FN@(vp::Ctx& c) { vp::c16::RED<%s,%s>::run(c); }\nVP_CASE("@KEY@", @FN@);' % (tn, ','.join(map(str, shp))))
        # arguments that need evaluation first (lazy transpose / matrix product / element-wise node around one): separate overloads of every reduction
        for (m, n) in ([(3, 5), (4, 4), (2, 9)] if quick else [(1, 1), (2, 2), (3, 5), (4, 4), (2, 9), (7, 3), (8, 8), (5, 16), (9, 9)]):
            add('C16|red-eval|%s|%dx%d' % (tk, m, n), 'static void @FN@(vp::Ctx& c) { vp::c16::RED2<%s,%d,%d>::run(c); }\nVP_CASE("@KEY@", @FN@);' % (tn, m, n))
        for n in ([1, 5, 12, 33] if quick else [1, 2, 3, 4, 5, 7, 8, 9, 12, 16, 17, 33, 64]):
            add('C16|predicates|%s|%d' % (tk, n), 'VP_CASE("@KEY@", vp::c16::predicates<%s,%d>);' % (tn, n))
        for n in ([1, 3, 8] if quick else [1, 2, 3, 4, 5, 8, 9]):
            add('C16|matrix-predicates|%s|%d' % (tk, n), 'VP_CASE("@KEY@", vp::c16::matrix_predicates<%s,%d>);' % (tn, n))
            add('C16|trace|%s|%d' % (tk, n), 'VP_CASE("@KEY@", vp::c16::trace_case<%s,%d>);' % (tn, n))
    for tn, tk in TYPES[:2]:
        for n in (range(1, 13) if not quick else [1, 2, 3, 4, 5, 8, 9, 12]):
            for dt in ('Simple', 'LU', 'QR'):
                if quick and dt != 'Simple' and n in (5, 9) and tk == 'f32':
                    continue
                add('C16|det|%s|%d|%s' % (tk, n, dt), 'VP_CASE("@KEY@", vp::c16::det_case<%s,%d,Fastor::DetCompType::%s>);' % (tn, n, dt))
    allc = [cases[k] for k in sorted(cases)]
    rnd.shuffle(allc)
    tus = [TU('c16_%03d' % i, ch, headers=['vp_c16.h']) for i, ch in enumerate(chunk(allc, 8))]
    return tus, std_configs(tier)


TECHNIQUE = 'runtime monitoring: fold-definition oracle over sign patterns with an extreme element at every position, exhaustive boolean patterns (n<=12), exact Bareiss determinant for closed forms and condition-scaled bound for factorisation-based determinants; ASan/UBSan; per-ISA builds'
LEVEL_TEXT = ('Exploration: every reduction/predicate entry point (free function on tensor, on lazy expression, member) x sizes covering all vector-width residues x six sign patterns incl. an extreme at every '
              'position; predicates exhaustively over all 2^n patterns for n<=12; determinants n<=12 for three strategies.')
LEVEL_NOTE = 'trusted: the fold definitions, __int128 Bareiss, long-double Gauss-Jordan'
DESIGN_REF = 'DESIGN.md section 8 C16'
