"""C14 -- permute, permutation and transpose move every element to its permuted position."""
import random, itertools
from ..core import Case, TU, chunk, Cfg, std_configs

ID = 'C14'
TYPES = [('float', 'f32'), ('double', 'f64'), ('int', 'i32'), ('long', 'i64'), ('std::complex<float>', 'c32'), ('std::complex<double>', 'c64')]
RULE = ('cases: (a) permute<Index<p>>(A) for every permutation p of ranks 2-5 (sampled for rank 6) on shapes with pairwise distinct '
        'extents mixing vector-width multiples and non-multiples, tensor argument and unevaluated-expression argument, plus composition '
        'with the inverse permutation (bitwise identity); (b) legacy permutation<> judged as "p or p^-1, the same for extents and '
        'elements", with the direction recorded and required to be identical across all cases of the run (history monitor); '
        '(c) transpose/trans/ctrans/ctranspose for (M,N) over a box (all pairs up to 18x18 thorough, a seeded sample + the register-block '
        'boundaries quick) and batched transpose. Every operand element carries a unique id, so a wrong output element names the '
        'source it was copied from. non-trivial = more than one element moved; distinct = case keys.')
ASSUMPTIONS = ['reference: out(i[p0],..,i[pk]) = A(i0..ik) with extents shape[p[n]] (the property statement)', 'unique ids are exactly representable in every element type']

SHAPES = {2: [(3, 5), (8, 9), (2, 17)], 3: [(2, 3, 5), (4, 9, 3), (3, 8, 2)], 4: [(2, 3, 5, 4), (3, 2, 9, 4)], 5: [(2, 3, 5, 4, 3), (3, 2, 4, 5, 2)], 6: [(2, 3, 2, 4, 3, 2)]}


def inv(p):
    q = [0] * len(p)
    for n, x in enumerate(p):
        q[x] = n
    return q


def generate(seed, tier):
    quick = tier == 'quick'
    rnd = random.Random(seed * 7 + 3)
    cases = {}
    ti = 0
    for rank in (2, 3, 4, 5, 6):
        perms = list(itertools.permutations(range(rank)))
        if rank == 5 and quick:
            perms = rnd.sample(perms, 40)
        if rank == 6:
            perms = rnd.sample(perms, 12 if quick else 60)
        for p in perms:
            # rotate element types and shapes so that each permutation meets several of them across seeds
            for rep in range(1 if quick else 2):
                tn, tk = TYPES[ti % 4] if rank > 2 else TYPES[ti % 6]
                ti += 1
                shp = SHAPES[rank][(ti + rep) % len(SHAPES[rank])]
                ps = ','.join(map(str, p))
                key = 'C14|permute|%s|%s|p=%s' % (tk, 'x'.join(map(str, shp)), ps.replace(',', ''))
                cases[key] = Case(key, 'VP_CASE("@KEY@", vp::c14::permute_case<Fastor::Index<%s>, Fastor::Index<%s>, Fastor::Tensor<%s,%s>>);'
                                  % (ps, ','.join(map(str, inv(p))), tn, ','.join(map(str, shp))))
                if rank <= 5 and (not quick or rank <= 4 or rnd.random() < 0.3):
                    key = 'C14|permutation|%s|%s|p=%s' % (tk, 'x'.join(map(str, shp)), ps.replace(',', ''))
                    cases[key] = Case(key, 'VP_CASE("@KEY@", vp::c14::permutation_case<Fastor::Index<%s>, Fastor::Tensor<%s,%s>>);'
                                      % (ps, tn, ','.join(map(str, shp))))
    # transposes
    B = 18 if quick else 40
    pairs = set()
    core = [1, 2, 3, 4, 5, 7, 8, 9, 15, 16, 17]
    for m in core:
        for n in core:
            if not quick or rnd.random() < 0.35:
                pairs.add((m, n))
    for _ in range(30 if quick else 400):
        pairs.add((rnd.randrange(1, B + 1), rnd.randrange(1, B + 1)))
    if not quick:
        for m in range(1, 19):
            for n in range(1, 19):
                pairs.add((m, n))
    for i, (m, n) in enumerate(sorted(pairs)):
        for tn, tk in ([TYPES[i % 2]] + [TYPES[2 + i % 4]] if quick else TYPES):
            if quick and tk in ('i32', 'i64', 'c32', 'c64') and rnd.random() < 0.5:
                continue
            key = 'C14|transpose|%s|%dx%d' % (tk, m, n)
            cases[key] = Case(key, 'VP_CASE("@KEY@", vp::c14::transpose_case<%s,%d,%d>);' % (tn, m, n))
    # block classes of the hand-written b x b transpose kernels (b = 4, 8, 16 floats / 2, 4, 8 doubles): exactly one block, one block plus a
    # remainder in either direction, several blocks plus remainder -- always present, for both real types
    for b in (2, 4, 8, 16):
        for (m, n) in [(b, b), (b, b + 1), (b + 3, b), (2 * b, 2 * b + 1), (2 * b + 1, b)] + ([] if quick else [(3 * b, 2 * b), (b - 1, b), (b, b - 1), (2 * b + 1, 2 * b + 1)]):
            for tn, tk in TYPES[:2] if quick else TYPES[:4]:
                if m >= 1 and n >= 1:
                    key = 'C14|transpose|%s|%dx%d' % (tk, m, n)
                    cases[key] = Case(key, 'VP_CASE("@KEY@", vp::c14::transpose_case<%s,%d,%d>);' % (tn, m, n))
    for tn, tk in TYPES[:4]:
        for (b, j) in [(2, 2), (3, 3), (2, 4), (3, 5), (2, 8)]:
            key = 'C14|transpose-batched|%s|%dx%dx%d' % (tk, b, j, j)
            cases[key] = Case(key, 'VP_CASE("@KEY@", vp::c14::transpose_batched<%s,%d,%d>);' % (tn, b, j))
    for tn, tk in TYPES[:4]:
        key = 'C14|ctrans-real|%s|3x5' % tk
        cases[key] = Case(key, 'VP_CASE("@KEY@", vp::c14::ctrans_real<%s,3,5>);' % tn)
    allc = [cases[k] for k in sorted(cases)]
    rnd.shuffle(allc)
    tus = [TU('c14_%03d' % i, ch, headers=['vp_c14.h']) for i, ch in enumerate(chunk(allc, 30))]
    if quick:
        cfgs = [Cfg('sse2', '14', 'O2'), Cfg('sse2', '17', 'O2'), Cfg('avx2', '14', 'O2'), Cfg('avx512', '17', 'O2'), Cfg('avx2', '17', 'O2', macros=('CONTRACT_OPT=-1',)),
                Cfg('avx512', '14', 'O1', san='asan')]
    else:
        cfgs = std_configs(tier, stds=('14', '17'))
        for std in ('14', '17'):
            for isa in ('sse2', 'avx2', 'avx512'):
                cfgs.append(Cfg(isa, std, 'O2', macros=('CONTRACT_OPT=-1',)))
    return tus, cfgs


def post(events, res, findings):
    """history monitor: the legacy permutation<> must use the same direction (p or p^-1) in every case of the run"""
    dirs = {}
    for e in events:
        for k in ('direction=p', 'direction=inverse'):
            if (e.get('notes') or {}).get(k):
                dirs.setdefault(k, []).append(e)
    if len(dirs) == 2:
        minority = min(dirs.values(), key=len)
        for e in minority[:5]:
            res.violations.append({'key': e['k'], 'cfg': e['cfg'], 'mode': 'permutation-direction-inconsistent',
                                   'witness': 'this case resolves permutation<> in the opposite direction to %d other cases of the run' % max(len(v) for v in dirs.values()), 'event': e})


def coverage_extra(events, res):
    d = {'direction=p': 0, 'direction=inverse': 0}
    for e in events:
        for k in d:
            d[k] += (e.get('notes') or {}).get(k, 0)
    return {'permutation_direction_votes': d}


TECHNIQUE = 'runtime monitoring: unique-id provenance oracle (every element names its source) for all permutations of ranks 2-5, inverse-composition identity, cross-case history monitor for the legacy permutation<> direction, painted/framed transposes, c++14 and c++17 index-map variants, CONTRACT_OPT=-1 variant'
LEVEL_TEXT = ('Exploration: every permutation of ranks 2-5 (sample of rank 6) x shapes with distinct extents x element types, executed under c++14 and c++17 (the two '
              'index-map code paths) per ISA; all transposes in a box. Extents and all elements compared with the definitional reference.')
LEVEL_NOTE = 'trusted: the 15-line reference permutation; unique ids exactly representable'
DESIGN_REF = 'DESIGN.md section 8 C14'


REJECT_BY_DESIGN = [('C14|ctrans-real|*', "conj(")]   # ctrans of a real tensor: no conj() overload for real scalars


def reject_ok(e):
    import fnmatch
    return any(fnmatch.fnmatchcase(e['k'], k) and d in e.get('diag', '') for k, d in REJECT_BY_DESIGN)
