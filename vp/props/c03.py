"""C03 -- pairwise einsum equals the Einstein summation it denotes."""
import random, itertools
from ..core import Case, TU, chunk, Cfg, width

ID = 'C03'
TYPES = [('float', 'f32'), ('double', 'f64'), ('int', 'i32'), ('long', 'i64')]
RULE = ('cases = (form, element type, index pattern, extents). Patterns: every way of identifying labels BETWEEN the two index lists for '
        'operand ranks 1..3 (injective partial maps: any subset of positions contracted, in any order), a seeded sample for rank 4, and a '
        'sample of patterns with a repeated label WITHIN one list (traces); extents per label drawn from {1,2,3,W-1,W,W+1,2W} with pairwise '
        'distinct extents on distinct free labels whenever possible (a transposed result cannot hide) and, separately, all-equal extents. '
        'Forms: einsum<Ia,Ib>(a,b), contraction<Ia,Ib>(a,b), einsum on unevaluated expressions, einsum<Ia,Ib,OIndex<..>> for permutations of '
        'the free labels (C++17), einsum<I>(a)/contraction<I>(a) traces, inner, outer. Oracle: generic label-driven Einstein sum (free labels = '
        'labels occurring once, in order of first appearance); result extents and all elements compared (numeric equality on two small-integer '
        'draws, forward bound (terms+2)*eps*sum|prod| on a generic-real draw). A vector-axis sweep runs the extent of the last label of either operand through the SIMD width classes of every ABI (<W..4W+1) on fixed and sampled patterns. A pattern with a within-list repeat that the library rejects with its '
        'own diagnostic in EVERY configuration is counted rejected-by-design; a between-list pattern must be accepted. non-trivial = reference has '
        '>=2 distinct values or is a true reduction; distinct = case keys.')
ASSUMPTIONS = ['generic reference einsum in vp_einsum.h', 'small-integer operands make all summation orders bit-identical']


def fmt_idx(l):
    return 'Fastor::Index<%s>' % ','.join(map(str, l))


def tens(tn, dims):
    return 'Fastor::Tensor<%s%s>' % (tn, ''.join(',%d' % d for d in dims))


def pair_patterns(ra, rb):
    """La = 0..ra-1 ; Lb = injective partial map into La, new labels otherwise"""
    out = []
    for k in range(0, min(ra, rb) + 1):
        for posb in itertools.combinations(range(rb), k):
            for la in itertools.permutations(range(ra), k):
                lb = []
                nxt = ra
                it = iter(la)
                for p in range(rb):
                    if p in posb:
                        lb.append(next(it))
                    else:
                        lb.append(nxt)
                        nxt += 1
                out.append((list(range(ra)), lb))
    return out


def generate(seed, tier):
    quick = tier == 'quick'
    rnd = random.Random(seed * 9176 + 17)
    cases = {}
    wset = {'f32': [4, 8, 16], 'f64': [2, 4, 8], 'i32': [4, 8, 16], 'i64': [2, 4, 8]}

    def extents(labels_all, free, tk, equal=False):
        w = rnd.choice(wset[tk])
        pool = sorted(set([1, 2, 3, max(w - 1, 1), w, w + 1, 2 * w]))
        if equal:
            e = rnd.choice([2, 3, 4])
            return {l: e for l in labels_all}
        ext = {}
        used = set()
        for l in labels_all:
            cand = [p for p in pool if p not in used] if l in free else pool
            cand = [x for x in cand if x <= 9] if len(labels_all) >= 4 else cand
            if not cand:
                cand = [p for p in range(2, 12) if p not in used]
            ext[l] = rnd.choice(cand)
            if l in free:
                used.add(ext[l])
        # keep the total work bounded
        tot = 1
        for l in labels_all:
            tot *= ext[l]
        while tot > 6000:
            big = max(ext, key=lambda l: ext[l])
            tot //= ext[big]
            ext[big] = max(2, ext[big] // 2)
            tot *= ext[big]
        return ext

    def add_pair(form, tk, tn, la, lb, ext, extra=''):
        da, db = [ext[l] for l in la], [ext[l] for l in lb]
        pat = '%s-%s' % (''.join(chr(97 + l) for l in la), ''.join(chr(97 + l) for l in lb))
        key = 'C03|%s|%s|%s|%s,%s%s' % (form, tk, pat, 'x'.join(map(str, da)), 'x'.join(map(str, db)), extra)
        if key in cases:
            return None
        return key, da, db

    ti = [0]

    def next_type():
        ti[0] += 1
        return TYPES[ti[0] % 4]

    # ---- between-list patterns
    pats = []
    for ra in (1, 2, 3):
        for rb in (1, 2, 3):
            pats += pair_patterns(ra, rb)
    p4 = pair_patterns(4, 2) + pair_patterns(2, 4) + pair_patterns(4, 3) + pair_patterns(3, 4) + pair_patterns(4, 4)
    pats += rnd.sample(p4, 25 if quick else 200)
    if quick:
        # all rank<=2 patterns, a rotating 60% of the rank-3 ones
        pats = [p for p in pats if max(len(p[0]), len(p[1])) <= 2 or rnd.random() < 0.85]
    for la, lb in pats:
        labels = sorted(set(la + lb))
        free = [l for l in labels if (la + lb).count(l) == 1]
        for rep in range(1 if quick else 3):
            tn, tk = next_type()
            ext = extents(labels, free, tk, equal=(rep == 2 or (quick and rnd.random() < 0.15)))
            for form, which in (('einsum', 0), ('contraction', 1)):
                if quick and form == "contraction" and rnd.random() < 0.25:
                    continue
                r = add_pair(form, tk, tn, la, lb, ext)
                if r:
                    key, da, db = r
                    cases[key] = Case(key, 'VP_CASE("@KEY@", vp::c03::pair_case<%d,%s,%s,%s,%s>);' % (which, fmt_idx(la), fmt_idx(lb), tens(tn, da), tens(tn, db)))
            if rnd.random() < (0.12 if quick else 0.3):
                r = add_pair('einsum-expr', tk, tn, la, lb, ext)
                if r:
                    key, da, db = r
                    cases[key] = Case(key, 'VP_CASE("@KEY@", vp::c03::pair_expr_case<%s,%s,%s,%s>);' % (fmt_idx(la), fmt_idx(lb), tens(tn, da), tens(tn, db)))
            # explicit output order: permutations of the free labels
            if 1 <= len(free) <= 3:
                order = [l for l in la + lb if l in free]
                perms = list(itertools.permutations(order))
                for perm in (rnd.sample(perms, 1) if quick else perms):
                    if quick and rnd.random() < 0.5:
                        continue
                    r = add_pair('einsum-explicit', tk, tn, la, lb, ext, '|o=' + ''.join(chr(97 + l) for l in perm))
                    if r:
                        key, da, db = r
                        cases[key] = Case(key, 'VP_CASE("@KEY@", vp::c03::pair_explicit_case<%s,%s,Fastor::OIndex<%s>,%s,%s>);'
                                          % (fmt_idx(la), fmt_idx(lb), ','.join(map(str, perm)), tens(tn, da), tens(tn, db)))
    # ---- vector-axis sweep: the extent of the LAST label of either operand (the axis the general back end vectorises over when it is
    # free, and the one it reduces over when it is contracted) runs through the classes {<W, W, W+1, 2W-1, 2W, 2W+1, 3W, 4W(+1)} of every ABI
    sweep = {'f32': [4, 7, 8, 9, 15, 16, 17, 24, 32, 33, 48], 'f64': [2, 4, 5, 7, 8, 9, 12, 16, 17, 24, 32],
             'i32': [4, 7, 8, 9, 15, 16, 17, 24, 32, 33, 48], 'i64': [2, 4, 5, 7, 8, 9, 12, 16, 17, 24, 32]}
    fixed_sw = [([0, 1], [0, 2]), ([0, 1, 2], [3, 1, 4]), ([0, 1, 2], [0, 1, 3]), ([0, 1], [2, 1]), ([0, 1], [1, 2]), ([0], [1, 0]), ([0, 1, 2], [2, 3])]
    cand_sw = [p for p in pats if len(p[0]) + len(p[1]) <= 5]
    for tn, tk in TYPES:
        chosen = (rnd.sample(fixed_sw, 4) if quick else fixed_sw) + rnd.sample(cand_sw, 2 if quick else 8)
        for la, lb in chosen:
            labels = sorted(set(la + lb))
            free = [l for l in labels if (la + lb).count(l) == 1]
            for which_last in ((lb[-1],) if quick and rnd.random() < 0.7 else (lb[-1], la[-1])):
                for e in (rnd.sample(sweep[tk], 4) if quick else sweep[tk]):
                    small = [2, 3, 4, 5]
                    rnd.shuffle(small)
                    ext = {l: small[i % 4] for i, l in enumerate(labels)}
                    ext[which_last] = e
                    r = add_pair('einsum', tk, tn, la, lb, ext, '|sweep')
                    if r:
                        key, da, db = r
                        cases[key] = Case(key, 'VP_CASE("@KEY@", vp::c03::pair_case<0,%s,%s,%s,%s>);' % (fmt_idx(la), fmt_idx(lb), tens(tn, da), tens(tn, db)))
    # ---- within-list repeats (traces inside a pairwise einsum): extended family
    ext_pats = [([0, 0, 1], [1, 2]), ([0, 1], [2, 2, 1]), ([0, 0], [1, 2]), ([0, 1, 1], [0, 2]), ([0, 0, 1], [1]), ([0, 1, 0], [1, 2])]
    for _ in range(10 if quick else 80):
        ra, rb = rnd.choice([2, 3, 3, 4]), rnd.choice([1, 2, 3])
        la = list(range(ra - 1))
        la.insert(rnd.randrange(ra), rnd.choice(la))          # one label repeated inside the first list
        nxt = ra
        lb = []
        single = [l for l in set(la) if la.count(l) == 1]
        rnd.shuffle(single)
        for p in range(rb):
            if single and rnd.random() < 0.6:
                lb.append(single.pop())
            else:
                lb.append(nxt)
                nxt += 1
        if rnd.random() < 0.5:
            la, lb = lb, la
        ext_pats.append((la, lb))
    for la, lb in ext_pats:
        tn, tk = next_type()
        labels = sorted(set(la + lb))
        free = [l for l in labels if (la + lb).count(l) == 1]
        ext = extents(labels, free, tk)
        r = add_pair('einsum-ext', tk, tn, la, lb, ext)
        if r:
            key, da, db = r
            cases[key] = Case(key, 'VP_CASE("@KEY@", vp::c03::pair_case<0,%s,%s,%s,%s>);' % (fmt_idx(la), fmt_idx(lb), tens(tn, da), tens(tn, db)))
    # ---- single tensor traces
    singles = [[0, 0], [0, 0, 1], [0, 1, 0], [1, 0, 0], [0, 1, 1], [0, 0, 1, 1], [0, 1, 0, 1], [0, 1, 1, 0], [0, 0, 1, 2], [0, 1, 2, 1], [2, 0, 1, 0], [0, 1, 2, 2]]
    for l in singles:
        for rep in range(1 if quick else 3):
            tn, tk = next_type()
            ext = {x: rnd.choice([2, 3, 4, 5, 8, 9]) for x in set(l)}
            # distinct extents on free labels
            d = [ext[x] for x in l]
            for form, which in (('einsum1', 0), ('contraction1', 1)):
                key = 'C03|%s|%s|%s|%s' % (form, tk, ''.join(chr(97 + x) for x in l), 'x'.join(map(str, d)))
                cases[key] = Case(key, 'VP_CASE("@KEY@", vp::c03::single_case<%d,%s,%s>);' % (which, fmt_idx(l), tens(tn, d)))
    # ---- inner / outer
    shapes = [(1,), (3,), (9,), (17,), (2, 3), (4, 4), (3, 5, 2), (2, 2, 2, 2), (5, 7)]
    for shp in shapes:
        tn, tk = next_type()
        key = 'C03|inner|%s|%s' % (tk, 'x'.join(map(str, shp)))
        cases[key] = Case(key, 'VP_CASE("@KEY@", vp::c03::inner_case<%s>);' % tens(tn, shp))
    for sa, sb in [((3,), (5,)), ((2, 3), (4,)), ((4,), (2, 3)), ((2, 3), (3, 2)), ((2, 2), (2, 2)), ((3, 3), (3, 3)), ((2, 3, 2), (3,)), ((9,), (17,)), ((4, 4), (4, 4)), ((3,), (32,)), ((2,), (33,)), ((2, 2), (64,)), ((3,), (5, 13)), ((2,), (67,)), ((2,), (131,)), ((3,), (8, 16))]:
        tn, tk = next_type()
        key = 'C03|outer|%s|%s,%s' % (tk, 'x'.join(map(str, sa)), 'x'.join(map(str, sb)))
        cases[key] = Case(key, 'VP_CASE("@KEY@", vp::c03::outer_case<%s,%s>);' % (tens(tn, sa), tens(tn, sb)))
    allc = [cases[k] for k in sorted(cases)]
    rnd.shuffle(allc)
    tus = [TU('c03_%03d' % i, ch, headers=['vp_c03.h']) for i, ch in enumerate(chunk(allc, 20))]
    if quick:
        cfgs = [Cfg('sse2', '14', 'O2'), Cfg('avx2', '17', 'O2'), Cfg('avx512', '14', 'O2'), Cfg('avx2', '14', 'O2', macros=('CONTRACT_OPT=2',)),
                Cfg('avx512', '17', 'O1', san='asan')]
    else:
        cfgs = []
        for isa in ('scalar', 'sse2', 'sse42', 'avx', 'avx2', 'avx512', 'avx512f'):
            cfgs += [Cfg(isa, '14', 'O2'), Cfg(isa, '17', 'O2'), Cfg(isa, '17', 'O3')]
        for opt in ('-1', '1', '2'):      # (-3/-2 unroll the whole contraction at compile time: a single translation unit of the extent sweep then needs >10 GB and >20 min)
            for isa, std in (('sse2', '14'), ('avx2', '17'), ('avx512', '14')):
                cfgs.append(Cfg(isa, std, 'O2', macros=('CONTRACT_OPT=' + opt,)))
        cfgs += [Cfg('sse2', '14', 'O0'), Cfg('avx2', '17', 'O0')]
        for isa in ('sse2', 'avx2', 'avx512'):
            cfgs.append(Cfg(isa, '17', 'O1', san='asan'))
            cfgs.append(Cfg(isa, '17', 'O2', cxx='clang++'))
    return tus, cfgs


def reject_ok(e):
    # extended family only: rejected by the library's own check in every configuration
    return e['k'].startswith('C03|einsum-ext|') and e.get('all_rejected')


TECHNIQUE = 'runtime monitoring: generic label-driven reference Einstein summation as oracle over an enumerated family of index patterns (all between-list identifications for ranks<=3), distinct extents per free label, einsum/contraction/expression/explicit-output/trace/inner/outer forms, c++14+c++17, CONTRACT_OPT variants, ASan/UBSan'
LEVEL_TEXT = ('Exploration: complete enumeration of between-list index identifications for operand ranks <=3 (sampled for rank 4 and for within-list repeats) x boundary extents x '
              '4 element types, result extents and every element compared with the generic reference. Patterns of higher rank and extents outside the pool are not judged.')
LEVEL_NOTE = 'trusted: the ~40-line reference einsum (shared with C15); exact small-integer regime'
DESIGN_REF = 'DESIGN.md section 8 C03'
