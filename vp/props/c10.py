"""C10 -- inverse(A) times A is the identity for every size and every computation type."""
import random
from ..core import Case, TU, chunk
from ._linalg_common import FT, la_configs, weight_for

ID = 'C10'
STRATS = ['SimpleInv', 'SimpleInvPiv', 'BlockLU', 'BlockLUPiv', 'SimpleLU', 'SimpleLUPiv']
FAMS = {0: 'dominant', 1: 'spd', 2: 'cond', 3: 'dominant-rowperm'}
RULE = ('cases = (size n, strategy, element type, matrix family). Sizes 1..12 and the recursion boundaries 16|17, 32|33 (64|65 thorough); six InvCompType strategies; families: strictly '
        'diagonally dominant, SPD, orthogonal*diag*orthogonal with cond in {1,10,1000}, row permutations of dominant matrices (pivoted strategies). Each case draws 10 run-time matrices and '
        'requires max(|AX-I|,|XA-I|)_inf <= 16*n*u*cond_inf(A) (residuals and cond in long double; for a strategy without pivoting cond is the worst leading-block condition number, for a pivoted one that of the '
        'library-pre-pivoted matrix; inputs whose leading blocks exceed cond 1e3 are counted, not judged); NaN/inf in X is a violation; painted+framed result. Also lazy inv(A), inverse(expr), '
        'tinverse on unit-lower / upper triangular inputs (structure preserved exactly) at both ends of every size class of the triangular dispatchers up to 64 (65, 96 thorough), batched inverse. non-trivial = n>=2; distinct = case keys; the evidence reports the largest observed residual/bound ratio.')
ASSUMPTIONS = ['long-double Gauss-Jordan with partial pivoting as reference for cond(A)', 'constant c=16 (observed ratios on the pinned tree stay below 0.7)']


def generate(seed, tier):
    quick = tier == 'quick'
    rnd = random.Random(seed * 131 + 5)
    cases = {}
    sizes = list(range(1, 13)) + [16, 17]
    big = [32, 33] if quick else [32, 33, 64, 65]
    ti = rnd.randrange(2)
    for n in sizes + big:
        for st in STRATS:
            piv = st.endswith('Piv')
            fams = [0, 1, 2, 3] if piv else [0, 1, 2]
            if n >= 32:
                if quick and not (st in ('SimpleInv', 'BlockLUPiv') and n in (32, 33)):
                    continue
                if not quick and n >= 64 and st not in ('SimpleInv', 'BlockLU', 'SimpleLUPiv'):
                    continue
                fams = [3 if piv else 0]
            elif quick:
                fams = rnd.sample(fams, 2 if n <= 9 else 1)
            for fam in fams:
                ti += 1
                tps = FT if (not quick and n <= 17) else [FT[ti % 2]]
                for tn, tk in tps:
                    key = 'C10|inv|%s|n=%d|%s|%s' % (tk, n, st, FAMS[fam])
                    cases[key] = (n, Case(key, 'VP_CASE("@KEY@", vp::lin::inv_case<%s,%d,Fastor::InvCompType::%s,%d>);' % (tn, n, st, fam)))
    for n in ([2, 3, 4, 5, 9] if quick else [1, 2, 3, 4, 5, 8, 9, 16, 17]):
        for tn, tk in FT:
            key = 'C10|inv-lazy|%s|n=%d' % (tk, n)
            cases[key] = (n, Case(key, 'VP_CASE("@KEY@", vp::lin::inv_lazy<%s,%d>);' % (tn, n)))
            key = 'C10|tinverse|%s|n=%d' % (tk, n)
            cases[key] = (n, Case(key, 'VP_CASE("@KEY@", vp::lin::tinv_case<%s,%d>);' % (tn, n)))
    # the triangular inverses (and the block inverse built on them) are separate hand-written code per size class (0,4],(4,8],(8,16],(16,32],(32,64],(64,128]:
    # both ends of every class up to 64 in the quick tier (one element type each, rotating), the next class in the thorough tier
    for i, n in enumerate([8, 12, 16, 17, 24, 32, 33, 48, 64] + ([] if quick else [65, 96])):
        for tn, tk in ([FT[(i + seed) % 2]] if (quick or n > 64) else FT):
            key = 'C10|tinverse|%s|n=%d' % (tk, n)
            cases[key] = (n, Case(key, 'VP_CASE("@KEY@", vp::lin::tinv_case<%s,%d>);' % (tn, n)))
    for n in ([2, 3, 4] if quick else [2, 3, 4]):
        for tn, tk in FT:
            key = 'C10|inv-batched|%s|3x%dx%d' % (tk, n, n)
            cases[key] = (n, Case(key, 'VP_CASE("@KEY@", vp::lin::inv_batched<%s,3,%d>);' % (tn, n)))
    small = [c for k, (n, c) in sorted(cases.items()) if n <= 17]
    rnd.shuffle(small)
    tus = [TU('c10_%03d' % i, ch, headers=['vp_linalg.h']) for i, ch in enumerate(chunk(small, 5))]
    for k, (n, c) in sorted(cases.items()):
        if n > 17:
            tus.append(TU('c10_big_%d_%d' % (n, len(tus)), [c], headers=['vp_linalg.h'], weight=weight_for(n), only_cfgs=('gcc.avx2.*' if quick else None)))
    return tus, la_configs(tier)


TECHNIQUE = 'runtime monitoring: residual oracle max(|AX-I|,|XA-I|) <= 16 n u cond(A) in long double over run-time matrix families per instantiated (size, strategy), admissibility of the input decided by a reference condition-number computation, painted/framed result, ASan/UBSan, per-ISA builds'
LEVEL_TEXT = ('Exploration: every size 1..12 plus the recursion boundaries x six strategies x well-conditioned matrix families, 10 matrices per case, judged by a condition-scaled residual bound; '
              'larger sizes and ill-conditioned inputs are outside what is judged.')
LEVEL_NOTE = 'trusted: long-double reference inverse/condition number; the constant 16 is calibrated, not derived'
DESIGN_REF = 'DESIGN.md section 8 C10'
