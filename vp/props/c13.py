"""C13 -- QR factors are orthonormal and upper triangular and reproduce the matrix."""
import random
from ..core import Case, TU, chunk
from ._linalg_common import FT, la_configs, weight_for

ID = 'C13'
RULE = ('cases = (size n, QR strategy, permutation encoding, element type). Sizes 1..12 and 16|17, 32|33; modified Gram-Schmidt without pivot and with pivot returned as vector and as matrix. Per case 12 '
        'run-time matrices orthogonal*diag*orthogonal with 2-norm condition number exactly 1, 10, 100, 1000: R has EXACT zeros below the diagonal, |QtQ - I|_inf <= 16 n u cond(A), the permutation is a '
        'bijection, |QR - PA| <= 16 n u |A|_inf, and determinant<DetCompType::QR>(A) equals prod(diag R) within 16 n u |prod|; painted+framed Q and R. non-trivial = n>=2; distinct = case keys.')
ASSUMPTIONS = ['the pivot of the pivoted strategy is the library\'s static ROW pre-pivot (QR = PA with (QR)[i] = A[P(i)]), as implemented; the property text says "column-pivoted" - the check accepts the row convention the code and reconstruct() use',
               'Gram-Schmidt orthogonality loss proportional to cond(A)']


def generate(seed, tier):
    quick = tier == 'quick'
    rnd = random.Random(seed * 149 + 13)
    cases = {}
    sizes = list(range(1, 13)) + [16, 17] + ([33] if quick else [32, 33])
    ti = rnd.randrange(2)
    for n in sizes:
        for (st, enc) in [('MGSR', 0), ('MGSRPiv', 1), ('MGSRPiv', 2)]:
            if n >= 32 and quick and enc == 2:
                continue
            ti += 1
            tps = FT if (not quick or n <= 5) else [FT[ti % 2]]
            for tn, tk in tps:
                key = 'C13|qr|%s|n=%d|%s|P=%s' % (tk, n, st, ['none', 'vector', 'matrix'][enc])
                cases[key] = (n, Case(key, 'static void @FN@(vp::Ctx& c) { vp::lin::QRCase<%s,%d,Fastor::QRCompType::%s,%d>::run(c); }\nVP_CASE("@KEY@", @FN@);' % (tn, n, st, enc)))
    small = [c for k, (n, c) in sorted(cases.items()) if n <= 17]
    rnd.shuffle(small)
    tus = [TU('c13_%03d' % i, ch, headers=['vp_linalg.h']) for i, ch in enumerate(chunk(small, 5))]
    for k, (n, c) in sorted(cases.items()):
        if n > 17:
            tus.append(TU('c13_big_%d_%d' % (n, len(tus)), [c], headers=['vp_linalg.h'], weight=weight_for(n), only_cfgs=('gcc.avx2.*' if quick else None)))
    return tus, la_configs(tier)


TECHNIQUE = 'runtime monitoring: structural (exact zeros) + orthogonality + reproduction oracles with condition-scaled bounds in long double over run-time matrices of prescribed condition number per instantiated (size, strategy, permutation encoding); ASan/UBSan; per-ISA builds'
LEVEL_TEXT = 'Exploration: sizes 1..12 plus boundaries x three strategy/encoding forms x condition numbers {1,10,100,1000}, 12 matrices each.'
LEVEL_NOTE = 'trusted: long-double products, Gram-Schmidt construction of the test matrices; c=16'
DESIGN_REF = 'DESIGN.md section 8 C13'
