"""C12 -- solve(A,b) satisfies A*x = b for every size, strategy and right-hand-side shape."""
import random
from ..core import Case, TU, chunk
from ._linalg_common import FT, la_configs, weight_for

ID = 'C12'
STRATS = ['SimpleInv', 'SimpleInvPiv', 'BlockLU', 'BlockLUPiv', 'SimpleLU', 'SimpleLUPiv']
RULE = ('cases = (size n, solve strategy, right-hand-side shape, element type, family). Sizes 1..12 and 16|17, 32|33; the six implemented SolveCompType strategies (QR and Chol are sentinels: rejected by '
        'the library in every configuration = counted, not judged); vector right-hand sides and n x k with k in {1,2,3,5,8,9}; dominant / prescribed-condition / row-permuted-dominant families; tensor and '
        'expression arguments. Per case 10 run-time systems, each column must satisfy |Ax-b|_inf <= 16 n u cond(A) |b|_inf (admissibility as in C10). Also the triangular substitution helpers with and '
        'without a permutation vector. non-trivial = n>=2; distinct = case keys.')
ASSUMPTIONS = ['long-double residuals and condition numbers; c=16']


def generate(seed, tier):
    quick = tier == 'quick'
    rnd = random.Random(seed * 139 + 11)
    cases = {}
    sizes = list(range(1, 13)) + [16, 17] + ([33] if quick else [32, 33])
    ks = [0, 1, 2, 3, 5, 8, 9]
    ti = rnd.randrange(2)
    for n in sizes:
        for st in STRATS:
            piv = st.endswith('Piv')
            if n >= 32 and quick and st not in ('BlockLUPiv',):
                continue
            kk = [0, rnd.choice(ks[1:])] if quick else [0, 1, 3, rnd.choice([2, 5, 8, 9])]
            if n >= 32:
                kk = [0]
            for k in kk:
                fam = (3 if piv else 0) if (ti % 3) else 2
                ti += 1
                tps = FT if (not quick and n <= 9) else [FT[ti % 2]]
                for tn, tk in tps:
                    key = 'C12|solve|%s|n=%d|%s|rhs=%s|%s' % (tk, n, st, 'vec' if k == 0 else 'nx%d' % k, ['dominant', '', 'cond', 'dominant-rowperm'][fam])
                    cases[key] = (n, Case(key, 'static void @FN@(vp::Ctx& c) { vp::lin::SolveCase<%s,%d,Fastor::SolveCompType::%s,%d,%d>::run(c); }\nVP_CASE("@KEY@", @FN@);' % (tn, n, st, k, fam)))
    for st in ('QR', 'Chol'):
        key = 'C12|solve-unimplemented|f64|n=4|%s' % st
        cases[key] = (4, Case(key, 'static void @FN@(vp::Ctx& c) { vp::lin::SolveCase<double,4,Fastor::SolveCompType::%s,0,0>::run(c); }\nVP_CASE("@KEY@", @FN@);' % st))
    for n in ([1, 3, 8, 17] if quick else [1, 2, 3, 4, 5, 8, 9, 16, 17]):
        for tn, tk in FT:
            key = 'C12|subs|%s|n=%d' % (tk, n)
            cases[key] = (n, Case(key, 'VP_CASE("@KEY@", vp::lin::subs_case<%s,%d,3>);' % (tn, n)))
    small = [c for k, (n, c) in sorted(cases.items()) if n <= 17]
    rnd.shuffle(small)
    tus = [TU('c12_%03d' % i, ch, headers=['vp_linalg.h']) for i, ch in enumerate(chunk(small, 5))]
    for k, (n, c) in sorted(cases.items()):
        if n > 17:
            tus.append(TU('c12_big_%d_%d' % (n, len(tus)), [c], headers=['vp_linalg.h'], weight=weight_for(n), only_cfgs=('gcc.avx2.*' if quick else None)))
    return tus, la_configs(tier)


def reject_ok(e):
    return e['k'].startswith('C12|solve-unimplemented|') and e.get('all_rejected')


TECHNIQUE = 'runtime monitoring: residual oracle |Ax-b| <= 16 n u cond(A) |b| per column in long double over run-time systems per instantiated (size, strategy, rhs shape); painted/framed result; ASan/UBSan; per-ISA builds'
LEVEL_TEXT = 'Exploration: sizes 1..12 plus boundaries x six strategies x vector and multi-column right-hand sides x families, 10 systems each, condition-scaled residual bound per column.'
LEVEL_NOTE = 'trusted: long-double residuals; c=16'
DESIGN_REF = 'DESIGN.md section 8 C12'
