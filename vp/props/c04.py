"""C04 -- reading through an index or a slice returns exactly the selected elements."""
import random
from ..core import Case, TU, chunk, Cfg, std_configs

ID = 'C04'
TYPES = [('float', 'f32'), ('double', 'f64'), ('int', 'i32'), ('long', 'i64')]
RULE = ('cases: (a) dynamic 1-D views: for a parent of extent N and a result extent m, ONE instantiation is driven at run time through EVERY '
        '(first,last,step) triple whose normalised extent is m, in the positive, last-relative-end and both-negative encodings (Tensor, const Tensor '
        'and TensorMap parents; alone, negated, and inside A(s)+B(s\')*2); (b) dynamic 2-D views likewise over pairs of ranges (full cross product up '
        'to 4000 pairs, seeded sample beyond), integer-mixed forms A(i,seq), A(seq,j), A(i,all) with i=-1; (c) dynamic n-D views of rank 3-5, 400 '
        'sampled range tuples per instantiation; (d) compile-time ranges fseq/all/fix<-1>/mixtures from a generated family (all (F,L,S) incl. negative '
        'encodings for small extents, seeded for ranks 2-5), evaluated alone and inside expressions; iseq; (e) scalar indexing A(i0..ik) for every '
        'multi-index in the signed box [-d,d) per axis, ranks 1-6, const and non-const; diag views. Parent elements carry unique ids, so a wrong '
        'element names the offset it was read from. The oracle is the documented convention: negative range bound b = dim+1+b, seq(-1)/fix<-1> = last '
        'element, negative scalar index i = dim+i. non-trivial = >1 element selected; distinct = case keys; sub_executions = slices driven.')
ASSUMPTIONS = ['range convention as read from to_positive and the view constructors (DESIGN.md C04)', 'a fixed integer <= -2 inside a slice is outside the admissible family']


def tens(tn, dims):
    return 'Fastor::Tensor<%s,%s>' % (tn, ','.join(map(str, dims)))


def norm(F, L, N):
    if L == 0 and F == -1:
        return N - 1, N
    if L < 0 and F < 0:
        return F + N + 1, L + N + 1
    if L < 0 <= F:
        return F, L + N + 1
    return F, L


def encodings(f, l, N, rnd):
    e = [(f, l), (f, l - N - 1), (f - N - 1, l - N - 1)]
    return e


def generate(seed, tier):
    quick = tier == 'quick'
    rnd = random.Random(seed * 65537 + 29)
    cases = {}
    ti = [rnd.randrange(4)]

    def ty():
        ti[0] += 1
        return TYPES[ti[0] % 4]

    def add(key, code):
        cases.setdefault(key, Case(key, code))

    # (a) 1-D dynamic
    Ns = list(range(1, 21))
    pairs = [(n, m) for n in Ns for m in range(1, n + 1)]
    if quick:
        keep = [(n, m) for (n, m) in pairs if n <= 5] + rnd.sample([p for p in pairs if p[0] > 5], 34)
    else:
        keep = pairs
    for (n, m) in keep:
        for rep in range(1 if quick else 2):
            tn, tk = ty()
            add('C04|read1d|%s|N=%d|m=%d' % (tk, n, m), 'VP_CASE("@KEY@", vp::c04::read1d<%s,%d,%d>);' % (tn, n, m))
    for n in ([1, 2, 7, 16] if quick else Ns):
        tn, tk = ty()
        add('C04|read1d-single|%s|N=%d' % (tk, n), 'VP_CASE("@KEY@", vp::c04::read1d_single<%s,%d>);' % (tn, n))
    # (b) 2-D dynamic
    for (M, N) in [(7, 9), (5, 17), (12, 20)] + ([] if quick else [(3, 3), (8, 8), (16, 4)]):
        mn = [(m, n) for m in range(1, M + 1) for n in range(1, N + 1)]
        # the views take a vector branch at run time when the last range is contiguous and a whole number of vectors long: extra cases with such an n
        vec_n = [(rnd.randrange(1, M + 1), n) for n in (2, 4, 8, 16) if n <= N]
        for (m, n) in rnd.sample(mn, min(len(mn), 7 if quick else 40)) + (rnd.sample(vec_n, min(2, len(vec_n))) if quick else vec_n):
            tn, tk = ty()
            add('C04|read2d|%s|%dx%d|%dx%d' % (tk, M, N, m, n), 'VP_CASE("@KEY@", vp::c04::read2d<%s,%d,%d,%d,%d>);' % (tn, M, N, m, n))
    for (M, N) in [(3, 5), (8, 9)] + ([] if quick else [(1, 4), (16, 17)]):
        tn, tk = ty()
        add('C04|read2d-int|%s|%dx%d' % (tk, M, N), 'VP_CASE("@KEY@", vp::c04::read2d_int<%s,%d,%d>);' % (tn, M, N))
    # (c) n-D dynamic
    for dims in [(4, 5, 6), (3, 4, 2, 5), (2, 3, 2, 3, 4), (5, 2, 9), (3, 4, 16), (2, 3, 33)]:
        for rep in range(3 if quick else 12):
            ms = [rnd.randrange(1, d + 1) for d in dims]
            if rep % 3 == 2:
                ms[-1] = rnd.choice([m for m in (2, 4, 8, 16, 32) if m <= dims[-1]])
            tn, tk = ty()
            add('C04|readnd|%s|%s|%s' % (tk, 'x'.join(map(str, dims)), 'x'.join(map(str, ms))),
                'static void @FN@(vp::Ctx& c) { vp::c04::ND<%s, Fastor::Index<%s>, Fastor::Index<%s>>::run(c); }\nVP_CASE("@KEY@", @FN@);'
                % (tn, ','.join(map(str, dims)), ','.join(map(str, ms))))
    # (d) fixed ranges
    def fs(F, L, S):
        return 'vp::c04::FS<%d,%d,%d>' % (F, L, S)

    def fixed_case(dims, triples):
        tn, tk = ty()
        key = 'C04|fixed|%s|%s|%s' % (tk, 'x'.join(map(str, dims)), ','.join('%d:%d:%d' % t for t in triples))
        add(key, 'static void @FN@(vp::Ctx& c) { vp::c04::FIX<%s, Fastor::Index<%s>, %s>::run(c); }\nVP_CASE("@KEY@", @FN@);'
            % (tn, ','.join(map(str, dims)), ', '.join(fs(*t) for t in triples)))

    allr1 = []
    for N in (1, 2, 3, 5, 8, 9):
        for s in range(1, N + 1):
            for f in range(N):
                for l in range(f + 1, N + 1):
                    for (F, L) in encodings(f, l, N, rnd):
                        allr1.append((N, (F, L, s)))
        allr1.append((N, (-1, 0, 1)))      # fix<-1>
        allr1.append((N, (0, -1, 1)))      # all
    for (N, t) in (rnd.sample(allr1, 70) if quick else allr1):
        fixed_case((N,), [t])

    def rand_triple(N):
        if rnd.random() < 0.15:
            return (0, -1, 1)
        if rnd.random() < 0.08:
            return (-1, 0, 1)
        f = rnd.randrange(N)
        l = rnd.randrange(f + 1, N + 1)
        s = rnd.randrange(1, max(2, (l - f)) + 1) if rnd.random() < 0.6 else 1
        return rnd.choice(encodings(f, l, N, rnd)) + (s,)

    for dims in [(5, 7), (8, 9), (3, 4, 5), (2, 3, 4, 3), (2, 3, 2, 3, 2), (16, 17), (4, 8)]:
        for _ in range(5 if quick else 40):
            fixed_case(dims, [rand_triple(d) for d in dims])
    # iseq
    for (N, F, L, S) in [(9, 0, 9, 1), (9, 1, 8, 2), (17, 3, 17, 5), (4, 3, 4, 1)]:
        tn, tk = ty()
        add('C04|iseq1|%s|N=%d|%d:%d:%d' % (tk, N, F, L, S), 'VP_CASE("@KEY@", vp::c04::iseq1<%s,%d,%d,%d,%d>);' % (tn, N, F, L, S))
    for (M, N, a, b) in [(5, 7, (1, 4, 2), (0, 7, 3)), (8, 9, (0, 8, 1), (2, 9, 2))]:
        tn, tk = ty()
        add('C04|iseq2|%s|%dx%d|%s,%s' % (tk, M, N, ':'.join(map(str, a)), ':'.join(map(str, b))),
            'VP_CASE("@KEY@", vp::c04::iseq2<%s,%d,%d,%s,%s>);' % (tn, M, N, ','.join(map(str, a)), ','.join(map(str, b))))
    # (e) scalar indexing
    for dims in [(1,), (7,), (17,), (3, 5), (8, 9), (2, 3, 4), (3, 2, 4, 2), (2, 3, 2, 2, 3), (2, 2, 3, 2, 2, 2)]:
        tn, tk = ty()
        add('C04|scalar-index|%s|%s' % (tk, 'x'.join(map(str, dims))),
            'static void @FN@(vp::Ctx& c) { vp::c04::SC<%s,%s>::run(c); }\nVP_CASE("@KEY@", @FN@);' % (tn, ','.join(map(str, dims))))
    for n in (1, 2, 3, 5, 9):
        tn, tk = ty()
        add('C04|diag|%s|%d' % (tk, n), 'VP_CASE("@KEY@", vp::c04::diag_read<%s,%d>);' % (tn, n))
    allc = [cases[k] for k in sorted(cases)]
    rnd.shuffle(allc)
    tus = [TU('c04_%03d' % i, ch, headers=['vp_c04.h']) for i, ch in enumerate(chunk(allc, 12))]
    if quick:
        cfgs = [Cfg('sse2', '14', 'O2'), Cfg('avx2', '14', 'O2'), Cfg('avx512', '17', 'O2'), Cfg('avx2', '14', 'O2', macros=('FASTOR_USE_VECTORISED_EXPR_ASSIGN',)),
                Cfg('avx512', '14', 'O1', san='asan')]
    else:
        cfgs = std_configs(tier)
        for isa in ('sse2', 'avx2', 'avx512'):
            cfgs.append(Cfg(isa, '14', 'O2', macros=('FASTOR_USE_VECTORISED_EXPR_ASSIGN',)))
    return tus, cfgs


TECHNIQUE = 'runtime monitoring: runtime-exhaustive enumeration of (first,last,step) triples and encodings per instantiated (parent extent, result extent), unique-id provenance oracle, compile-time range family, signed-box scalar indexing, ASan/UBSan, per-ISA builds'
LEVEL_TEXT = ('Exploration, exhaustive at run time within each instantiated shape: every admissible range triple in three encodings for 1-D parents up to 20 (all (N,m) in the thorough tier), '
              'full or sampled cross products for 2-D, sampled tuples for ranks 3-5, generated compile-time families; each selected element is compared with the parent element the convention denotes.')
LEVEL_NOTE = 'trusted: the range convention model (vp_views.h, 30 lines) derived from the library\'s own to_positive rule and the property text'
DESIGN_REF = 'DESIGN.md section 8 C04'
THOROUGH_NATIVE = True      # this module's own thorough product (covering sample of 320 pairs) was soaked to silence
