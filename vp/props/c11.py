"""C11 -- LU factors are triangular and reproduce the (row-permuted) matrix."""
import random
from ..core import Case, TU, chunk
from ._linalg_common import FT, la_configs, weight_for

ID = 'C11'
STRATS = ['BlockLU', 'SimpleLU', 'BlockLUPiv', 'SimpleLUPiv']
RULE = ('cases = (size n, LU strategy, permutation encoding, element type, family). Sizes 1..12 and block boundaries 16|17, 32|33 (64|65 thorough); BlockLU, SimpleLU and their pivoted forms with the '
        'permutation returned as a vector AND as a matrix; families: diagonally dominant (all strategies) and row permutations of dominant matrices (pivoted). Per case 10 run-time matrices: L must be '
        'unit lower triangular with EXACT zeros above the diagonal and an exact unit diagonal, U upper triangular with exact zeros below, the permutation a bijection (vector) / a 0-1 matrix with unit '
        'row and column sums (matrix), |LU - PA|_ij <= 16 n u (|L||U|)_ij element-wise, reconstruct(L,U[,P]) = A within the same bound, tensor and expression arguments; painted+framed L and U. '
        'non-trivial = n>=2; distinct = case keys.')
ASSUMPTIONS = ['element-wise backward error bound with c=16', 'row-permutation convention (LU)[i] = A[P(i)] as implemented by reconstruct()']


def generate(seed, tier):
    quick = tier == 'quick'
    rnd = random.Random(seed * 137 + 9)
    cases = {}
    sizes = list(range(1, 13)) + [16, 17] + ([32, 33] if quick else [32, 33, 64, 65])
    ti = rnd.randrange(2)
    for n in sizes:
        for st in STRATS:
            piv = st.endswith('Piv')
            encs = [1, 2] if piv else [0]
            for enc in encs:
                fams = [0, 3] if piv else [0]
                if n >= 32:
                    if quick and not (st in ('BlockLU', 'BlockLUPiv') and (enc in (0, 1) or n == 33)):     # the wrappers differ per permutation encoding: the matrix form too, once, above the 32 boundary
                        continue
                    fams = fams[-1:]
                elif quick and n > 9:
                    fams = fams[-1:]
                for fam in fams:
                    ti += 1
                    tps = FT if (not quick and n <= 17) else [FT[ti % 2]]
                    for tn, tk in tps:
                        key = 'C11|lu|%s|n=%d|%s|P=%s|%s' % (tk, n, st, ['none', 'vector', 'matrix'][enc], ['dominant', '', '', 'dominant-rowperm'][fam])
                        cases[key] = (n, Case(key, 'static void @FN@(vp::Ctx& c) { vp::lin::LUCase<%s,%d,Fastor::LUCompType::%s,%d,%d>::run(c); }\nVP_CASE("@KEY@", @FN@);' % (tn, n, st, enc, fam)))
    small = [c for k, (n, c) in sorted(cases.items()) if n <= 17]
    rnd.shuffle(small)
    tus = [TU('c11_%03d' % i, ch, headers=['vp_linalg.h']) for i, ch in enumerate(chunk(small, 5))]
    for k, (n, c) in sorted(cases.items()):
        if n > 17:
            tus.append(TU('c11_big_%d_%d' % (n, len(tus)), [c], headers=['vp_linalg.h'], weight=weight_for(n), only_cfgs=('gcc.avx2.*' if quick else None)))
    return tus, la_configs(tier)


TECHNIQUE = 'runtime monitoring: structural (exact zeros / unit diagonal / bijection) and element-wise backward-error oracle |LU-PA| <= 16 n u |L||U| in long double over run-time matrix families per instantiated (size, strategy, permutation encoding); painted/framed factors; ASan/UBSan; per-ISA builds'
LEVEL_TEXT = 'Exploration: sizes 1..12 plus block boundaries x four strategies x both permutation encodings x two matrix families, 10 matrices each; exact structural checks and an element-wise backward error bound.'
LEVEL_NOTE = 'trusted: long-double products; c=16'
DESIGN_REF = 'DESIGN.md section 8 C11'
