"""C08 -- every SIMD vector type behaves as independent scalar lanes."""
import random
from ..core import Case, TU, chunk, Cfg, std_configs

ID = 'C08'
TYPES = [('float', 'f32'), ('double', 'f64'), ('int', 'i32'), ('long', 'i64'),
         ('std::complex<float>', 'c32'), ('std::complex<double>', 'c64')]
ABIS = ['scalar', 'sse', 'avx', 'avx512']
GROUPS = ['sizecheck', 'loadstore', 'arith', 'fma_ops', 'math', 'horiz', 'misc', 'masks', 'freemasks', 'cplx']
RULE = ('cases = (operation group, scalar type, ABI) for every SIMDVector<T,ABI> that exists under the ISA being built '
        '(specialised intrinsic implementations and the generic array implementation they fall back to, plus fixed_size and '
        'non-specialised element types); each case drives the real vector type with lane values from four regimes (boundary '
        'pool incl. INT_MIN/max, +-0, denormals, inf, NaN; small integers; random bit patterns; moderate reals) for 400-1500 '
        'iterations and compares every lane with the scalar C++ operation (bitwise, NaN==NaN; lanes where the scalar op is '
        'UB are skipped and counted), horizontal ops with the fold, masked load/store over ALL masks (Size<=8) or '
        'prefix/suffix/single-bit/4096 random masks (Size 16) incl. disabled lanes lying on a PROT_NONE page, unaligned '
        'load/store at every misalignment against guard pages; thorough adds the full 2^32 domain for unary -,abs,sqrt on '
        'float and int32. non-trivial = the group executed >=1 lane comparison on a vector type with Size lanes; distinct = case keys.')
ASSUMPTIONS = ['scalar C++ arithmetic of the host compiler is the reference (IEEE-754 binary32/64, two\'s complement)',
               'fmadd-family results may be fused or separately rounded (both accepted)',
               'min/max are not judged on NaN operands or (+0,-0) pairs',
               'masked-load disabled lanes may be zero-filled or preserved (both conventions exist in the tree; counted separately)']


def generate(seed, tier):
    quick = tier == 'quick'
    cases = []
    for tn, tk in TYPES:
        for abi in ABIS:
            for grp in GROUPS:
                if grp == 'cplx' and not tk.startswith('c'):
                    continue
                key = 'C08|%s|%s|%s' % (grp, tk, abi)
                guard = {'scalar': '1', 'sse': 'defined(FASTOR_SSE2_IMPL)', 'avx': 'defined(FASTOR_AVX_IMPL)', 'avx512': 'defined(FASTOR_AVX512F_IMPL)'}[abi]
                # an ABI wider than what the build provides is only a generic array fallback nobody dispatches to: not applicable
                cases.append(Case(key, '#if %s\nstatic void @FN@(vp::Ctx& c) { vp::c08::Suite<%s, Fastor::simd_abi::%s>::%s(c); }\n#else\nstatic void @FN@(vp::Ctx& c) { c.status = "na"; }\n#endif\nVP_CASE("@KEY@", @FN@);' % (guard, tn, abi, grp)))
    # generic-only element types / fixed_size ABIs
    for tn, tk, abi, abik in [('long long', 'll', 'sse', 'sse'), ('short', 'i16', 'fixed_size<8>', 'fixed8'), ('float', 'f32', 'fixed_size<4>', 'fixed4'),
                              ('int', 'i32', 'fixed_size<3>', 'fixed3'), ('double', 'f64', 'fixed_size<2>', 'fixed2')]:
        for grp in ['sizecheck', 'loadstore', 'arith', 'horiz', 'misc'] + (['masks'] if abik in ('fixed8', 'fixed4', 'fixed2') else []):
            if tk == 'i16' and grp in ('arith', 'horiz'):
                continue
            key = 'C08|%s|%s|%s' % (grp, tk, abik)
            cases.append(Case(key, 'static void @FN@(vp::Ctx& c) { vp::c08::Suite<%s, Fastor::simd_abi::%s>::%s(c); }\nVP_CASE("@KEY@", @FN@);' % (tn, abi, grp)))
    if not quick:
        nch = 32
        for tn, tk in (('float', 'f32'), ('int', 'i32')):
            for abi in ABIS:
                for k in range(nch):
                    key = 'C08|exhaustive-unary|%s|%s|chunk%d' % (tk, abi, k)
                    cases.append(Case(key, 'static void @FN@(vp::Ctx& c) { vp::c08::exhaustive_unary<%s, Fastor::simd_abi::%s>(c, %d, %d); }\nVP_CASE("@KEY@", @FN@);' % (tn, abi, k, nch)))
    rnd = random.Random(seed)
    rnd.shuffle(cases)
    tus = [TU('c08_%03d' % i, ch, headers=['vp_c08.h']) for i, ch in enumerate(chunk(cases, 6))]
    if quick:
        cfgs = [Cfg('sse2', '14', 'O2'), Cfg('avx', '14', 'O2'), Cfg('avx2', '14', 'O2'), Cfg('avx512', '14', 'O2'), Cfg('avx512', '14', 'O1', san='asan')]
    else:
        cfgs = std_configs(tier)
    return tus, cfgs


TECHNIQUE = 'runtime monitoring: lane-wise scalar reference oracle over boundary/random/bit-pattern lane values for every (type, ABI) vector class, all-mask enumeration with guard pages for masked accesses, exhaustive 2^32 unary sweep (thorough)'
LEVEL_TEXT = ('Exploration: each vector class that exists under each ISA build is driven through every operation group with four value regimes and '
              'compared lane by lane against scalar C++; masked loads/stores are enumerated over all masks for Size<=8; thorough tier enumerates the '
              'complete 32-bit domain for unary -, abs, sqrt. Binary/ternary operations and 64-bit types are sampled, not enumerated.')
LEVEL_NOTE = 'trusted: host scalar arithmetic and libm sqrt; the vp_c08.h harness; ISAs are exercised only as far as this host can execute them'
DESIGN_REF = 'DESIGN.md section 8 C08'
THOROUGH_NATIVE = True      # this module's own thorough product (covering sample of 320 pairs) was soaked to silence
