"""C06 -- results do not depend on the SIMD instruction set, C++ level or tuning macros."""
import random, importlib, fnmatch
from ..core import Case, TU, chunk, Cfg, match_finding

ID = 'C06'
CORPUS = ['c01', 'c02', 'c03', 'c04', 'c05', 'c09', 'c14', 'c15', 'c16', 'c17', 'c18', 'c19', 'c20', 'c10', 'c12']
RULE = ('the union corpus: a seeded sample of the generated driver programs of the other properties (matmul, element-wise expression trees, pairwise and network einsum, slice reads/writes/noalias, index/mask views, '
        'lazy operators, permute/transpose, reductions/predicates/determinants, tmatmul, maps, inverse, solve) is compiled and run under a set of build configurations -- quick: a covering selection over '
        'ISA {scalar,sse2,sse4.2,avx,avx2+fma,avx512,avx512f} x {c++14,c++17} x {-O0,-O1,-O2,-O3} x runtime checks on/off plus the documented tuning macros one at a time; thorough: the full ISA x std x opt grid, '
        'each macro on three ISAs, clang. Every driver draws its inputs from a PRNG keyed by (case, seed) only, so the same case sees the same inputs in every configuration. Per case the offline monitor requires '
        '(i) the compiler accepts it in all configurations or in none, (ii) the 64-bit digest of its integer / boolean / exact-regime results (floats: -ffp-contract=off, IEEE-exact operations and small-integer '
        'regimes only) is identical in all configurations, (iii) its verdict (held / violated) is the same in all configurations. Floating results in rounding regimes are covered through (iii): each configuration '
        'is judged against the same reference with the operation\'s own bound. non-trivial = case produced a digest in >=2 configurations; distinct = case keys.')
ASSUMPTIONS = ['drivers are compiled with -ffp-contract=off in every configuration so that FMA contraction by the compiler is not mistaken for a library difference',
               'configurations this host cannot execute are skipped and listed']

EMPTY_DIG = 'cbf29ce484222325'
OFF = ('-ffp-contract=off', '-DVP_FP_CONTRACT_OFF')


def violation(e):
    return None          # a case that is wrong in every configuration is its owner's business; C06 judges differences (post)


def reject_ok(e):
    return True          # acceptance is judged across configurations in post()


def generate(seed, tier):
    quick = tier == 'quick'
    rnd = random.Random(seed * 1009 + 41)
    tus = []
    for name in CORPUS:
        try:
            mod = importlib.import_module('vp.props.' + name)
        except ImportError:
            continue
        otus, _ = mod.generate(seed, 'quick')
        otus = [t for t in otus if t.weight == 1]
        for t in rnd.sample(otus, min(len(otus), 2 if quick else 4)):
            cs = t.cases if len(t.cases) <= (6 if quick else 24) else rnd.sample(t.cases, 6 if quick else 24)
            tus.append(TU('u_' + t.name, cs, headers=t.headers, weight=1, pre=t.pre))
    # macro-targeted corpus: a tuning macro only changes the code of a few operation families, so the configurations that set it get extra
    # translation units of exactly those families (built under the macro configuration(s) and two macro-free reference configurations only)
    targeted = {'VECTORISED': ['c04', 'c05', 'c18', 'c19'], 'USE_HADD': ['c16', 'c01'], 'MATMUL': ['c01', 'c17'], 'TRANS': ['c14']}
    for tag, mods in sorted(targeted.items()):
        for name in mods:
            mod = importlib.import_module('vp.props.' + name)
            otus, _ = mod.generate(seed, 'quick')
            otus = [t for t in otus if t.weight == 1]
            for t in rnd.sample(otus, min(len(otus), 3 if quick else 6)):
                cs = t.cases if len(t.cases) <= (8 if quick else 24) else rnd.sample(t.cases, 8 if quick else 24)
                tus.append(TU('m_%s_%s' % (tag, t.name), cs, headers=t.headers, weight=1, pre=t.pre, only_cfgs=('*%s*' % tag, 'gcc.sse2.14.O2+ffp*', 'gcc.avx2.14.O1+ffp*', 'gcc.avx512.14.O3+ffp*', 'gcc.avx2.14.O2+ffp*', 'gcc.avx512.14.O2+ffp*')))
    isas = ['scalar', 'sse2', 'sse42', 'avx', 'avx2', 'avx512', 'avx512f']
    cfgs = []
    if quick:
        # anchor = the configuration the pinned suite exercises; then a selection in which every pair (ISA, std), (ISA, opt), (std, opt), (checks, ISA) occurs
        rows = [('sse2', '14', 'O2', False), ('scalar', '17', 'O1', True), ('sse42', '17', 'O3', False), ('avx', '14', 'O0', True), ('avx2', '17', 'O2', True), ('avx512', '14', 'O3', False),
                ('avx512f', '17', 'O0', False), ('scalar', '14', 'O3', False), ('sse2', '17', 'O0', True), ('sse42', '14', 'O1', True), ('avx', '17', 'O2', False), ('avx2', '14', 'O1', False),
                ('avx512', '17', 'O1', True), ('avx512f', '14', 'O2', True), ('avx2', '14', 'O3', True), ('avx512', '14', 'O0', False)]
        for isa, std, opt, chk in rows:
            cfgs.append(Cfg(isa, std, opt, checks=chk, extra=OFF))
        first = tus[0].name if tus else '*'
        for m in ('FASTOR_USE_VECTORISED_EXPR_ASSIGN', 'FASTOR_ZERO_INITIALISE', 'FASTOR_USE_HADD'):
            cfgs.append(Cfg('avx2', '14', 'O2', macros=(m,), extra=OFF))
        cfgs.append(Cfg('sse2', '14', 'O2', macros=('FASTOR_USE_HADD',), extra=OFF))
        for m in ('FASTOR_MATMUL_OUTER_BLOCK_SIZE=2', 'FASTOR_MATMUL_INNER_BLOCK_SIZE=3', 'FASTOR_MATMUL_INNER_BLOCK_SIZE=5'):
            cfgs.append(Cfg('avx512' if '5' not in m else 'sse2', '14', 'O2', macros=(m,), extra=OFF, only_tus=('u_c01*', 'm_MATMUL_*')))
        cfgs.append(Cfg('avx2', '14', 'O2', macros=('FASTOR_TRANS_OUTER_BLOCK_SIZE=2', 'FASTOR_TRANS_INNER_BLOCK_SIZE=2'), extra=OFF, only_tus=('u_c14*', 'm_TRANS_*')))
        cfgs.append(Cfg('avx2', '14', 'O2', macros=('FASTOR_DONT_PERFORM_OP_MIN',), extra=OFF, only_tus='u_c16*'))
    else:
        for isa in isas:
            for std in ('14', '17'):
                for opt in ('O0', 'O2', 'O3'):
                    cfgs.append(Cfg(isa, std, opt, extra=OFF))
            cfgs.append(Cfg(isa, '14', 'O1', checks=True, extra=OFF))
        macros = ['FASTOR_USE_VECTORISED_EXPR_ASSIGN', 'FASTOR_ZERO_INITIALISE', 'FASTOR_USE_HADD', 'FASTOR_DONT_PERFORM_OP_MIN', 'FASTOR_MATMUL_OUTER_BLOCK_SIZE=2', 'FASTOR_MATMUL_OUTER_BLOCK_SIZE=4',
                  'FASTOR_MATMUL_INNER_BLOCK_SIZE=1', 'FASTOR_MATMUL_INNER_BLOCK_SIZE=3', 'FASTOR_MATMUL_INNER_BLOCK_SIZE=5', 'FASTOR_TRANS_OUTER_BLOCK_SIZE=2', 'FASTOR_TRANS_INNER_BLOCK_SIZE=2']
        for m in macros:
            for isa in ('sse2', 'avx2', 'avx512'):
                cfgs.append(Cfg(isa, '14', 'O2', macros=(m,), extra=OFF, only_tus=('u_c16*' if m == 'FASTOR_DONT_PERFORM_OP_MIN' else (('u_c14*', 'm_TRANS_*') if 'TRANS' in m else None))))
        for isa in ('sse2', 'avx2', 'avx512'):
            cfgs.append(Cfg(isa, '17', 'O2', cxx='clang++', extra=OFF))
    return tus, cfgs


def post(events, res, findings):
    bykey = {}
    for e in events:
        bykey.setdefault(e['k'], []).append(e)
    for k, evs in sorted(bykey.items()):
        evs = [e for e in evs if e.get('st') not in ('skipped-isa', 'noevent', 'na')]
        if len(evs) < 2:
            continue
        rej = [e for e in evs if e.get('st') == 'rejected']
        acc = [e for e in evs if e.get('st') != 'rejected']
        cand = []
        if rej and acc:
            # one violation per distinct diagnostic: the configurations that reject the program
            bydiag = {}
            for e in rej:
                bydiag.setdefault(e.get('diag', '')[:70], []).append(e)
            for d, es in bydiag.items():
                for e in es:
                    cand.append((e, 'accepted-elsewhere-rejected-here:' + ''.join(ch for ch in d if ch.isalnum() or ch in ' _<>:,.()-')[:70],
                                 'rejected under %s (%s) but accepted under %d other configurations, e.g. %s' % (e['cfg'], e.get('diag', '')[:160], len(acc), acc[0]['cfg'])))
        ok = [e for e in acc if e.get('st') == 'ok']
        bad = [e for e in acc if e.get('st') in ('bad', 'crash', 'sanitizer', 'exc') or e.get('nb', 0) > 0]
        if ok and bad:
            for e in bad:
                cand.append((e, 'verdict-differs-between-configurations:' + (e.get('mode') or e.get('st'))[:60],
                             'violated under %s (%s) but held under %d other configurations, e.g. %s' % (e['cfg'], (e.get('fb') or '')[:160], len(ok), ok[0]['cfg'])))
        digs = {}
        for e in ok:
            d = e.get('dig')
            if d and d != EMPTY_DIG:
                digs.setdefault(d, []).append(e)
        if len(digs) >= 2:
            groups = sorted(digs.values(), key=len, reverse=True)
            for g in groups[1:]:
                for e in g:
                    cand.append((e, 'digest-differs-between-configurations', 'result digest %s under %s differs from digest %s under %d other configurations, e.g. %s' % (e['dig'], e['cfg'], groups[0][0]['dig'], len(groups[0]), groups[0][0]['cfg'])))
        for e, mode, wit in cand:
            f = match_finding(findings, ID, e['k'], mode, e['cfg'])
            if f:
                res.known.setdefault(f['id'], {'finding': f, 'count': 0, 'example': '%s @ %s: %s' % (e['k'], e['cfg'], wit)})['count'] += 1
            else:
                res.violations.append({'key': e['k'], 'cfg': e['cfg'], 'mode': mode, 'witness': wit, 'event': e})


def nontrivial(e):
    return e.get('st') == 'ok' and e.get('dig') and e.get('dig') != EMPTY_DIG


def coverage_extra(events, res):
    bykey = {}
    for e in events:
        if e.get('st') == 'ok' and e.get('dig') and e.get('dig') != EMPTY_DIG:
            bykey.setdefault(e['k'], set()).add(e['cfg'])
    return {'cases_with_digest_in_2+_configs': sum(1 for v in bykey.values() if len(v) >= 2),
            'digest_comparisons(case x config)': sum(len(v) for v in bykey.values())}


TECHNIQUE = 'runtime monitoring: offline cross-configuration monitor over recorded events -- per case compile-status agreement, 64-bit result-digest equality and verdict equality across a covering selection of ISA x language level x optimisation level x runtime checks x tuning macros; same PRNG inputs in every configuration'
LEVEL_TEXT = ('Exploration over configurations x programs: the sampled corpus of all other checks under 16 base configurations (all seven ISA levels, both language levels, -O0..-O3, checks on/off) plus macro variants in the quick tier, '
              'the full grid in the thorough tier; disagreements are reported per (case, configuration) pair.')
LEVEL_NOTE = 'trusted: the compilers; -ffp-contract=off; digests cover integer/boolean/exact-regime results, rounding-regime floats are compared through their per-configuration verdicts'
DESIGN_REF = 'DESIGN.md section 8 C06'
