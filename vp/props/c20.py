"""C20 -- wrapped/reshaped tensors are true aliases; layout conversions are exact inverses."""
import random, itertools
from ..core import Case, TU, chunk, Cfg, std_configs

ID = 'C20'
TYPES = [('float', 'f32'), ('double', 'f64'), ('int', 'i32'), ('long', 'i64')]
RULE = ('cases: (a) histories: for shapes of rank 1-4 (total <= 120 elements) random sequences of 10-50 operations {whole-object op= scalar / tensor / expression (5 operators), element write, slice write, '
        'fill/iota/zeros, read-modify-write through an expression} are applied IDENTICALLY to a TensorMap over a buffer flush against PROT_NONE pages (head- and tail-flush, byte misalignments 0..63) and to '
        'an owning twin tensor, with a plain-array model advanced in lock-step; buffer, twin and model are compared three-way bit-for-bit after EVERY step (the witness is the shortest diverging prefix) and '
        'the guard slack is verified; matmul into a map and transpose from a map; (b) reshape<...>/flatten/squeeze maps: pointer identity, extents, and 60 alternating writes through the source, the reshaped '
        'map and the flat map, each immediately visible through the other two at the same row-major offset, for all generated same-size target shapes; (c) layout: Tensor(ptr,ColumnMajor)(i...) == '
        'ptr[cm(i...)], tocolumnmajor(A)(i...) == A.data()[cm(i...)], torowmajor its inverse, both compositions the identity, ranks 1-4, non-square shapes; (d) construction from raw buffers, std::array, '
        'std::vector and nested initializer lists stores row-major. non-trivial = >1 element; distinct = case keys; sub_executions = history steps.')
ASSUMPTIONS = ['cm(i0..ik) = sum i_n * prod_{m<n} d_m (column-major offset); direction of tocolumnmajor taken from the ColumnMajor constructor contract (DESIGN.md C20)',
               'operations that the library rejects for a TensorMap destination in every configuration (map = A % B) are not part of the history alphabet']


def divisor_shapes(total, maxrank=4):
    out = set()

    def rec(rem, cur):
        if len(cur) >= 1 and rem == 1:
            out.add(tuple(cur))
        if len(cur) == maxrank:
            return
        for d in range(2 if cur else 1, rem + 1):
            if rem % d == 0:
                rec(rem // d, cur + [d])
    rec(total, [])
    return sorted(out)


def generate(seed, tier):
    quick = tier == 'quick'
    rnd = random.Random(seed * 6007 + 19)
    cases = {}
    ti = [rnd.randrange(4)]

    def ty():
        ti[0] += 1
        return TYPES[ti[0] % 4]

    def add(key, code):
        cases.setdefault(key, Case(key, code))

    shapes = [(1,), (7,), (17,), (33,), (3, 5), (8, 9), (4, 16), (2, 3, 4), (5, 2, 9), (2, 3, 2, 5), (3, 2, 2, 4)]
    for shp in (shapes if not quick else rnd.sample(shapes, 7)):
        for tn, tk in (TYPES if not quick else [ty()]):
            add('C20|history|%s|%s' % (tk, 'x'.join(map(str, shp))), 'static void @FN@(vp::Ctx& c) { vp::c20::HIST<%s,%s>::run(c); }\nVP_CASE("@KEY@", @FN@);' % (tn, ','.join(map(str, shp))))
    for (m, k, n) in [(3, 4, 5), (5, 3, 17), (9, 9, 9)]:
        tn, tk = ty()
        add('C20|map-linalg|%s|%dx%dx%d' % (tk, m, k, n), 'VP_CASE("@KEY@", vp::c20::map_linalg<%s,%d,%d,%d>);' % (tn, m, k, n))
    for src in [(12,), (3, 4), (2, 3, 4), (24,), (4, 6), (2, 2, 2, 3), (6, 6), (30,)]:
        tot = 1
        for d in src:
            tot *= d
        targets = [t for t in divisor_shapes(tot) if t != src]
        for dst in (rnd.sample(targets, min(len(targets), 3)) if quick else targets):
            tn, tk = ty()
            add('C20|reshape|%s|%s->%s' % (tk, 'x'.join(map(str, src)), 'x'.join(map(str, dst))),
                'static void @FN@(vp::Ctx& c) { vp::c20::RESHAPE<%s, Fastor::Index<%s>, Fastor::Index<%s>>::run(c); }\nVP_CASE("@KEY@", @FN@);' % (tn, ','.join(map(str, src)), ','.join(map(str, dst))))
    for shp in [(1, 5), (3, 1, 4), (1, 1, 7), (2, 1, 3, 1), (1, 4, 1)]:
        tn, tk = ty()
        add('C20|squeeze|%s|%s' % (tk, 'x'.join(map(str, shp))), 'VP_CASE("@KEY@", (vp::c20::squeeze_case<%s,%s>));' % (tn, ','.join(map(str, shp))))
    for shp in [(1,), (6,), (2, 3), (5, 4), (3, 3), (2, 3, 4), (4, 2, 3), (2, 3, 2, 5), (3, 1, 2), (7, 2)]:
        for tn, tk in (TYPES if not quick else [ty()]):
            add('C20|layout|%s|%s' % (tk, 'x'.join(map(str, shp))), 'static void @FN@(vp::Ctx& c) { vp::c20::LAYOUT<%s,%s>::run(c); }\nVP_CASE("@KEY@", @FN@);' % (tn, ','.join(map(str, shp))))

    def nested(shp, vals):
        if len(shp) == 1:
            return '{' + ','.join(str(v) for v in vals) + '}'
        step = len(vals) // shp[0]
        return '{' + ','.join(nested(shp[1:], vals[i * step:(i + 1) * step]) for i in range(shp[0])) + '}'

    for shp in [(5,), (2, 3), (3, 2), (2, 2, 3), (2, 3, 2, 2)]:
        tn, tk = ty()
        tot = 1
        for d in shp:
            tot *= d
        vals = [rnd.randrange(-50, 50) for _ in range(tot)]
        add('C20|init-list|%s|%s' % (tk, 'x'.join(map(str, shp))),
            'static void @FN@(vp::Ctx& c) { Fastor::Tensor<%s,%s> A = %s; vp::launder(A.data()); vp::c20::init_list_check(c, A, std::vector<long>{%s}); }\nVP_CASE("@KEY@", @FN@);'
            % (tn, ','.join(map(str, shp)), nested(shp, vals), ','.join(map(str, vals))))
    add('C20|map-rejects|f64|map=scalar', 'VP_CASE("@KEY@", vp::c20::map_assign_scalar<double,5>);')
    add('C20|map-rejects|f64|map=A%B', 'VP_CASE("@KEY@", vp::c20::map_assign_lazy_matmul<double,3>);')
    allc = [cases[k] for k in sorted(cases)]
    rnd.shuffle(allc)
    tus = [TU('c20_%03d' % i, ch, headers=['vp_c20.h']) for i, ch in enumerate(chunk(allc, 5))]
    if quick:
        cfgs = [Cfg('sse2', '14', 'O2'), Cfg('avx2', '14', 'O2'), Cfg('avx512', '17', 'O2'), Cfg('avx512', '14', 'O1', san='asan')]
    else:
        cfgs = std_configs(tier)
    return tus, cfgs


TECHNIQUE = 'runtime monitoring: history monitor -- random operation sequences applied in lock-step to a TensorMap on guard pages, an owning twin and a plain-array model with three-way comparison after every step; alias-visibility checks for reshape/flatten/squeeze in both directions; definitional column-major offset oracle; ASan/UBSan'
LEVEL_TEXT = ('Exploration over histories: thousands of operation steps per shape across byte misalignments and both guard placements, each followed by a three-way bitwise comparison; all same-size reshape targets of the '
              'generated sources; layout conversions checked at every multi-index of the generated shapes.')
LEVEL_NOTE = 'trusted: the plain-array operator model and the column-major offset formula'
DESIGN_REF = 'DESIGN.md section 8 C20'


def reject_ok(e):
    # API gaps of TensorMap destinations (no overload in any configuration): counted, listed in DESIGN.md, not judged
    return e['k'].startswith('C20|map-rejects|') and e.get('all_rejected')
