"""C15 -- multi-tensor einsum is independent of the contraction order the cost model picks."""
import random
from ..core import Case, TU, chunk, Cfg, std_configs

ID = 'C15'
TYPES = [('double', 'f64'), ('int', 'i32'), ('float', 'f32'), ('long', 'i64')]
RULE = ('cases = (operand count 3/4/5, index-sharing topology, extent assignment, element type). Topologies are random label assignments over operands of rank 1-3 in which every label occurs at most twice '
        '(chains, stars, cycles, free labels on inner operands); each topology is instantiated with several extent assignments from {2,3,4,5,7,8,9} -- distinct extents on distinct free labels, and '
        'separately equal extents -- so that the compile-time cost model picks different pairwise orders (the variant actually taken at every level is reported by a guarded hook and counted in the '
        'evidence). The oracle is the generic N-operand Einstein sum with free labels in order of first appearance; extents and all elements are compared on two small-integer draws (numeric equality). '
        'A mismatch is diagnosed by SIMULATING the pairing order the library reported: if the buffer is exactly the pairing-order result flat-copied into the declared shape the mode is '
        '"free-indices-in-pairing-order(flat-copied)" (a recorded finding), anything else is an unexplained mismatch. Networks rejected by the compiler in every configuration are counted, not judged. '
        'non-trivial = any; distinct = case keys.')
ASSUMPTIONS = ['generic reference einsum shared with C03', 'the defect simulation only classifies failures, it never excuses a result the simulation does not reproduce exactly']


def fmt_idx(l):
    return 'Fastor::Index<%s>' % ','.join(map(str, l))


def tens(tn, dims):
    return 'Fastor::Tensor<%s,%s>' % (tn, ','.join(map(str, dims)))


def rand_topology(rnd, k):
    """k index lists, every label at most twice over all lists, every operand shares a label with another one"""
    for _ in range(200):
        ranks = [rnd.choice([1, 2, 2, 3]) for _ in range(k)]
        slots = [(i, p) for i in range(k) for p in range(ranks[i])]
        lists = [[None] * r for r in ranks]
        label = 0
        rnd.shuffle(slots)
        free_slots = list(slots)
        # pair up some slots from DIFFERENT operands (contracted labels), leave the rest free
        npairs = rnd.randrange(max(1, k - 1), max(k, len(slots) // 2) + 1)
        ok = True
        for _p in range(npairs):
            if len(free_slots) < 2:
                break
            a = free_slots.pop()
            cand = [s for s in free_slots if s[0] != a[0]]
            if not cand:
                free_slots.append(a)
                break
            b = rnd.choice(cand)
            free_slots.remove(b)
            lists[a[0]][a[1]] = label
            lists[b[0]][b[1]] = label
            label += 1
        for (i, p) in free_slots:
            lists[i][p] = label
            label += 1
        # no repeated label within one list, connectedness (every operand shares at least one label)
        if any(len(set(l)) != len(l) for l in lists):
            continue
        shared = [any(x in other for j, other in enumerate(lists) if j != i for x in l) for i, l in enumerate(lists)]
        if not all(shared):
            continue
        allv = [x for l in lists for x in l]
        nfree = sum(1 for x in set(allv) if allv.count(x) == 1)
        if nfree > 4:
            continue
        return lists
    return None


def generate(seed, tier):
    quick = tier == 'quick'
    rnd = random.Random(seed * 9973 + 31)
    cases = {}
    ti = 0
    for k, n_topo in ((3, 26 if quick else 200), (4, 12 if quick else 90), (5, 4 if quick else 30)):
        made = 0
        guard = 0
        while made < n_topo and guard < n_topo * 20:
            guard += 1
            lists = rand_topology(rnd, k)
            if not lists:
                continue
            labels = sorted(set(x for l in lists for x in l))
            allv = [x for l in lists for x in l]
            free = [x for x in labels if allv.count(x) == 1]
            for rep in range(2 if quick else 4):
                pool = [2, 3, 4, 5, 7, 8, 9]
                if rep == (1 if quick else 3):
                    e = rnd.choice([2, 3])
                    ext = {l: e for l in labels}        # equal extents: a mis-ordered result still type-checks
                else:
                    rnd.shuffle(pool)
                    ext = {}
                    fi = 0
                    for l in labels:
                        if l in free:
                            ext[l] = pool[fi % len(pool)]
                            fi += 1
                        else:
                            ext[l] = rnd.choice([2, 3, 4, 8])
                tot = 1
                for l in labels:
                    tot *= ext[l]
                if tot > 20000:
                    continue
                ti += 1
                tn, tk = TYPES[ti % 4]
                pat = '-'.join(''.join(chr(97 + x) for x in l) for l in lists)
                dims = ['x'.join(str(ext[x]) for x in l) for l in lists]
                forms = [('net%d' % k, 0)] + ([('con3', 1)] if k == 3 and rnd.random() < 0.3 else [])
                for form, which in forms:
                    key = 'C15|%s|%s|%s|%s' % (form, tk, pat, ','.join(dims))
                    if key in cases:
                        continue
                    idx = ', '.join(fmt_idx(l) for l in lists)
                    tt = ', '.join(tens(tn, [ext[x] for x in l]) for l in lists)
                    if k == 3:
                        code = 'VP_CASE("@KEY@", vp::c15::net3<%d, %s, %s>);' % (which, idx, tt)
                    else:
                        code = 'VP_CASE("@KEY@", vp::c15::net%d<%s, %s>);' % (k, idx, tt)
                    cases[key] = Case(key, code)
            made += 1
    allc = [cases[k] for k in sorted(cases)]
    rnd.shuffle(allc)
    tus = [TU('c15_%03d' % i, ch, headers=['vp_c15.h']) for i, ch in enumerate(chunk(allc, 6))]
    nomin = ('FASTOR_DONT_PERFORM_OP_MIN',)
    if quick:
        cfgs = [Cfg('sse2', '14', 'O2'), Cfg('avx2', '17', 'O2'), Cfg('avx512', '14', 'O2'), Cfg('avx2', '14', 'O2', macros=nomin, only_tus='c15_000'), Cfg('avx512', '17', 'O1', san='asan')]
    else:
        cfgs = std_configs(tier, stds=('14', '17'))
        for isa, std in (('sse2', '14'), ('avx2', '17'), ('avx512', '14')):
            cfgs.append(Cfg(isa, std, 'O2', macros=nomin, only_tus='c15_00[0-3]'))
    return tus, cfgs


def reject_ok(e):
    # topologies whose pairwise intermediate degenerates (scalar intermediate etc.) are rejected by the library's own machinery in every configuration
    return e.get('all_rejected') and 'dimension mismatch' not in e.get('diag', '') and 'throw-expression' not in e.get('diag', '')


def coverage_extra(events, res):
    var = {}
    for e in events:
        for r, n in (e.get('routes') or {}).items():
            if r.startswith('network'):
                var[r] = var.get(r, 0) + 1
    return {'cost_model_variants_taken(cases x configs)': var}


TECHNIQUE = 'runtime monitoring: generic N-operand reference Einstein sum as oracle over generated index-sharing topologies x extent assignments that steer the cost model (variant reported by a guarded hook), failure classification by simulating the reported pairing order; op-min on/off; c++14/17; ASan/UBSan'
LEVEL_TEXT = ('Exploration over generated programs: random 3-, 4- and 5-operand topologies x extent assignments (distinct and equal free extents) x 4 element types, every result element and the result extents compared with the '
              'definitional Einstein sum; the evidence lists which cost-model variants were actually exercised.')
LEVEL_NOTE = 'trusted: the reference einsum; hooks are witnesses used only to CLASSIFY a failure (pairing-order model), never to accept a result'
DESIGN_REF = 'DESIGN.md section 8 C15'
