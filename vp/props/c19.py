"""C19 -- index-tensor and boolean-mask views select and update exactly the indexed items."""
import random
from ..core import Case, TU, chunk, Cfg, std_configs

ID = 'C19'
TYPES = [('float', 'f32'), ('double', 'f64'), ('int', 'i32'), ('long', 'i64')]
INTS = [('int', 'i32'), ('long', 'i64'), ('size_t', 'u64')]
RULE = ('cases, runtime-enumerated inside each instantiation: (a) flat index tensor on a 1-D parent of 12: EVERY index vector of length 1-4 (12^K; strided to <=30000 per instantiation for K=4, '
        'phase = seed) is read (Tensor, const Tensor, inside an expression; repeats allowed) and, when duplicate-free, written with 5 operators x {scalar, tensor, expression}; (b) one index '
        'tensor per axis on a 5x6 parent: every (row list, column list) pair of length 1-2; (c) index tensor mixed with an integer or a compile-time range (A(it,int), A(int,it), A(it,fseq), '
        'A(fseq,it)); (d) shaped flat-index tensors on n-D parents and random long index tensors (unsorted, with repeats for reads); (e) boolean masks: ALL 2^12 masks on a 3x4 parent x 3 '
        '(operator, rhs kind) draws, random masks on parents of 64 elements. Index element types int32/int64/size_t. After each write the whole parent is compared with the model and the canary '
        'frame verified. non-trivial = any; distinct = case keys; sub_executions = index vectors / masks driven.')
ASSUMPTIONS = ['plain-array model of gather / scatter', 'writes are only driven with duplicate-free index sets, as the property requires']


def generate(seed, tier):
    quick = tier == 'quick'
    rnd = random.Random(seed * 2003 + 3)
    cases = {}
    ti = [rnd.randrange(4)]
    ii = [rnd.randrange(3)]

    def ty():
        ti[0] += 1
        return TYPES[ti[0] % 4]

    def it():
        ii[0] += 1
        return INTS[ii[0] % 3]

    def add(key, code):
        cases.setdefault(key, Case(key, code))

    for K in (1, 2, 3, 4):
        for rep in range(2 if quick else 4):
            (tn, tk), (inn, ik) = ty(), it()
            add('C19|flat1d|%s|%s|N=12|K=%d' % (tk, ik, K), 'VP_CASE("@KEY@", vp::c19::flat1d<%s,12,%d,%s>);' % (tn, K, inn))
    for (n, k) in [(9, 9), (17, 7), (33, 19), (35, 35)] if not quick else [(9, 9), (33, 19)]:
        (tn, tk), (inn, ik) = ty(), it()
        add('C19|flatnd|%s|%s|%d|%d' % (tk, ik, n, k), 'static void @FN@(vp::Ctx& c) { vp::c19::FLATND<%s, Fastor::Index<%d>, Fastor::Index<%d>, %s>::run(c); }\nVP_CASE("@KEY@", @FN@);' % (tn, n, k, inn))
    for (P, Q) in [(1, 1), (1, 2), (2, 1), (2, 2)]:
        (tn, tk), (inn, ik) = ty(), it()
        add('C19|axes2d|%s|%s|5x6|%dx%d' % (tk, ik, P, Q), 'VP_CASE("@KEY@", vp::c19::axes2d<%s,5,6,%d,%d,%s>);' % (tn, P, Q, inn))
    for (M, N, P, fs) in [(5, 6, 2, (1, 4, 1)), (8, 9, 3, (0, -1, 2)), (4, 17, 4, (2, -1, 1))] + ([] if quick else [(7, 7, 7, (-4, -1, 1)), (3, 33, 2, (0, -1, 2))]):
        (tn, tk), (inn, ik) = ty(), it()
        add('C19|mixed2d|%s|%s|%dx%d|P=%d|%d:%d:%d' % ((tk, ik, M, N, P) + fs), 'VP_CASE("@KEY@", vp::c19::mixed2d<%s,%d,%d,%d,%s,%d,%d,%d>);' % ((tn, M, N, P, inn) + fs))
    for (dims, idims) in [((3, 4), (2, 3)), ((5, 6), (4, 2)), ((2, 3, 4), (3, 2, 2))] + ([] if quick else [((8, 9), (5, 7)), ((2, 3, 2, 2), (2, 2, 2, 2))]):
        (tn, tk), (inn, ik) = ty(), it()
        add('C19|flatnd|%s|%s|%s|%s' % (tk, ik, 'x'.join(map(str, dims)), 'x'.join(map(str, idims))),
            'static void @FN@(vp::Ctx& c) { vp::c19::FLATND<%s, Fastor::Index<%s>, Fastor::Index<%s>, %s>::run(c); }\nVP_CASE("@KEY@", @FN@);'
            % (tn, ','.join(map(str, dims)), ','.join(map(str, idims)), inn))
    for dims in [(3, 4), (12,), (2, 3, 2), (8, 8), (64,), (4, 4, 4)] + ([] if quick else [(7,), (2, 2), (5, 7)]):
        for tn, tk in ([ty(), ty()] if quick else TYPES):
            add('C19|mask|%s|%s' % (tk, 'x'.join(map(str, dims))), 'static void @FN@(vp::Ctx& c) { vp::c19::MASK<%s,%s>::run(c); }\nVP_CASE("@KEY@", @FN@);' % (tn, ','.join(map(str, dims))))
    allc = [cases[k] for k in sorted(cases)]
    rnd.shuffle(allc)
    tus = [TU('c19_%03d' % i, ch, headers=['vp_c19.h']) for i, ch in enumerate(chunk(allc, 3))]
    if quick:
        cfgs = [Cfg('sse2', '14', 'O2'), Cfg('avx2', '14', 'O2'), Cfg('avx512', '17', 'O2'), Cfg('avx512', '14', 'O1', san='asan')]
    else:
        cfgs = std_configs(tier)
    return tus, cfgs


TECHNIQUE = 'runtime monitoring: gather/scatter plain-array oracle over runtime-exhaustive index vectors (length<=4 over 12), all 2^12 masks, per-axis index lists, integer/range mixtures; whole-parent comparison after each write, canary frames, ASan (stack-use-after-return for the temporary index tensors) / UBSan'
LEVEL_TEXT = ('Exploration, exhaustive at run time over small index domains: every index vector of length <=3 over a parent of 12 (strided for length 4), every row/column list pair of length <=2 over 5x6, '
              'all 2^12 masks, plus random larger instances; reads compared element-wise, writes followed by a whole-parent comparison.')
LEVEL_NOTE = 'trusted: the gather/scatter model'
DESIGN_REF = 'DESIGN.md section 8 C19'
