"""MANIFEST.setup_cmd: verify that everything the checks need is present (offline, stdlib only).
Nothing that depends on /repo is pre-built: every check rebuilds from /repo's working tree."""
import os, shutil, subprocess, sys, tempfile
sys.path.insert(0, os.path.dirname(os.path.dirname(os.path.abspath(__file__))))
from vp import core


def main():
    ok = True
    for tool in ('g++', 'clang++', 'python3', 'cmake', 'ninja', 'ctest'):
        p = shutil.which(tool)
        print('%-8s %s' % (tool, p or 'MISSING'))
        if not p and tool in ('g++', 'python3'):
            ok = False
    fl = core.cpu_flags()
    for isa, need in core.ISA_NEEDS.items():
        print('isa %-8s %s' % (isa, 'runnable' if all(f in fl for f in need) else 'NOT runnable on this host (will be skipped and reported)'))
    d = tempfile.mkdtemp(dir=core.ROOT, prefix='.setup-')
    try:
        src = os.path.join(d, 't.cpp')
        open(src, 'w').write('#include <cstdio>\nint main(){int a[4]={0};printf("%d\\n",a[3]);return 0;}\n')
        for flags in (['-O2'], ['-O1', '-fsanitize=address,undefined', '-fno-sanitize-recover=all']):
            r = subprocess.run(['g++'] + flags + [src, '-o', os.path.join(d, 't')], stdout=subprocess.PIPE, stderr=subprocess.PIPE)
            r2 = subprocess.run([os.path.join(d, 't')], stdout=subprocess.PIPE, stderr=subprocess.PIPE) if r.returncode == 0 else r
            print('g++ %s: %s' % (' '.join(flags), 'ok' if r.returncode == 0 and r2.returncode == 0 else 'FAILED'))
            ok = ok and r.returncode == 0 and r2.returncode == 0
    finally:
        shutil.rmtree(d, ignore_errors=True)
    if not os.path.isdir(os.path.join(core.REPO, 'Fastor')):
        print('missing %s/Fastor' % core.REPO)
        ok = False
    os.makedirs(os.path.join(core.ROOT, 'evidence'), exist_ok=True)
    print('setup', 'ok' if ok else 'FAILED')
    return 0 if ok else 1


if __name__ == '__main__':
    sys.exit(main())
