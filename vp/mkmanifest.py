"""Regenerate /verif/MANIFEST.json from the property modules that exist (== claimed checks)."""
import os, sys, json, importlib
sys.path.insert(0, os.path.dirname(os.path.dirname(os.path.abspath(__file__))))
ROOT = os.path.dirname(os.path.dirname(os.path.abspath(__file__)))

NOT_BUILT = 'check not built yet in this round (design in DESIGN.md section 8; the technique applies, work in progress)'


def main():
    props = [json.loads(l) for l in open(os.path.join(ROOT, 'properties.jsonl'))]
    checks, na = [], []
    for p in props:
        pid = p['id']
        path = os.path.join(ROOT, 'vp', 'props', pid.lower() + '.py')
        if not os.path.exists(path):
            na.append({'property_id': pid, 'reason': NOT_BUILT})
            continue
        m = importlib.import_module('vp.props.' + pid.lower())
        if getattr(m, 'NOT_APPLICABLE', None):
            na.append({'property_id': pid, 'reason': m.NOT_APPLICABLE})
            continue
        checks.append({
            'property_id': pid,
            'quick_cmd': './check %s --tier quick' % pid,
            'thorough_cmd': './check %s --tier thorough' % pid,
            'evidence_file': 'evidence/%s.json' % pid,
            'replay_cmd_template': './check %s --replay {path}' % pid,
            'engine': 'vp',
            'level_claimed': {'category': 'exploration', 'text': m.LEVEL_TEXT + (
                ' [thorough tier as registered: a seeded covering sample of 320 (translation unit, configuration) pairs of the thorough product named above]'
                if getattr(m, 'THOROUGH_NATIVE', False) else
                ' [thorough tier as registered: the union of three independent draws of the quick generator under the quick configurations; any larger thorough product named above is available with VERIF_NATIVE_THOROUGH=1 but was not soaked to silence and is not registered, see DESIGN.md 12.1]'),
                'design_ref': m.DESIGN_REF},
            'level_note': m.LEVEL_NOTE,
            'technique': m.TECHNIQUE,
        })
    hooks_commits = []
    hc = os.path.join(ROOT, 'hooks_commits.txt')
    if os.path.exists(hc):
        hooks_commits = [l.split()[0] for l in open(hc) if l.strip() and not l.startswith('#')]
    man = {
        'version': 1,
        'setup_cmd': 'python3 -m vp.setup',
        'hooks': {
            'guard': 'FASTOR_VERIF_HOOKS',
            'enable': 'every driver is compiled with -DFASTOR_VERIF_HOOKS -I/repo (header-only library: there is no separate build of /repo); the route sinks Fastor::verif::route are defined by the driver (vp/cxx/vp.h)',
            'baseline_off_cmd': 'python3 -m vp.baseline',
            'source_commits': hooks_commits,
            'add_only': True,
        },
        'engines': [{'name': 'vp', 'path': 'vp/', 'serves_properties': [c['property_id'] for c in checks],
                     'kind_free_text': 'runtime monitoring: seeded generator of small C++ driver programs over the real Fastor headers, build matrix (ISA x std x opt x macros x sanitizer) with compile-failure isolation, in-driver monitors (reference-model oracle, canaries, guard pages, allocation counter, route witnesses), offline judge with known-findings matching and replay files'}],
        'checks': checks,
        'not_applicable': na,
        'notes': 'Exit codes: 0 held on everything explored (KNOWN-FINDING lines possible), 1 VIOLATION, 2 harness failure. VERIF_SEED seeds case sampling and every PRNG stream. known_findings.json is read-only at run time.',
    }
    with open(os.path.join(ROOT, 'MANIFEST.json'), 'w') as f:
        json.dump(man, f, indent=1)
    print('MANIFEST.json: %d checks, %d not claimed' % (len(checks), len(na)))


if __name__ == '__main__':
    main()
