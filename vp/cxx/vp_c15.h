// C15 -- multi-operand einsum is independent of the contraction order the cost model picks
#ifndef VP_C15_H
#define VP_C15_H
#include "vp_einsum.h"

namespace vp { namespace c15 {
using namespace Fastor; using namespace vp::es;

// ---- simulation of the known defect (D11): every level of the network pairs a (k-1)-operand sub-network with the remaining
// operand; the pairwise step yields its free labels in PAIRING order, and that buffer is then reinterpreted (flat copy) as a
// tensor whose labels are in first-appearance order. `variant[k]` is the choice the library reported for the k-operand level.
struct Sim { std::vector<size_t> labels; std::vector<long double> data; };   // labels = ACTUAL axis order of the buffer
inline std::vector<size_t> dims_for(const std::vector<size_t>& labels, const std::map<size_t, size_t>& ext) { std::vector<size_t> d; for (auto l : labels) d.push_back(ext.at(l)); return d; }
// one pairwise step: free labels come out in pairing order (x's free labels, then y's). Inside a network the library passes exactly
// that label list on to the next level (cost_model::resulting_index), so intermediate levels stay consistent; only the FINAL buffer
// is flat-copied into the declared result type whose labels are in order of first appearance.
inline Sim sim_pair(const Sim& x, const Sim& y, const std::map<size_t, size_t>& ext) {
    std::vector<Operand> ops = { { x.labels, dims_for(x.labels, ext) }, { y.labels, dims_for(y.labels, ext) } };
    Sim r; std::vector<size_t> od;
    ref_einsum<long double, long double>(ops, { x.data.data(), y.data.data() }, {}, r.data, od);
    r.labels = free_labels(ops);
    return r;
}
template <class T>
inline Sim sim_network(const std::vector<Operand>& ops, const std::vector<const T*>& data, const std::map<size_t, size_t>& ext, const std::map<int, int>& variant) {
    size_t k = ops.size();
    if (k == 1) { size_t n = 1; for (auto d : ops[0].dims) n *= d; Sim s; s.labels = ops[0].labels; s.data.assign(data[0], data[0] + n); return s; }
    if (k == 2) { Sim a = sim_network<T>({ ops[0] }, { data[0] }, ext, variant), b = sim_network<T>({ ops[1] }, { data[1] }, ext, variant); return sim_pair(a, b, ext); }
    int v = variant.count((int)k) ? variant.at((int)k) : 0;
    size_t removed = (size_t)v >= k - 1 ? 0 : k - 1 - (size_t)v;   // variant 0 removes the last operand, variant >= k-1 the first
    std::vector<Operand> sub; std::vector<const T*> sd;
    for (size_t i = 0; i < k; ++i) if (i != removed) { sub.push_back(ops[i]); sd.push_back(data[i]); }
    Sim t = sim_network<T>(sub, sd, ext, variant);
    Sim r = sim_network<T>({ ops[removed] }, { data[removed] }, ext, variant);
    return v == 0 ? sim_pair(t, r, ext) : sim_pair(r, t, ext);
}

template <class RT, class T>
void judge_network(Ctx& c, const RT& res, const std::vector<Operand>& ops, const std::vector<const T*>& data, const char* what) {
    std::vector<T> want; std::vector<size_t> wd;
    if (!ref_einsum<T, T>(ops, data, {}, want, wd)) { c.fail("harness", "inconsistent extents"); return; }
    std::vector<size_t> gd = dims_of(res);
    ++c.checks;
    bool dims_ok = gd == wd;
    bool vals_ok = res.size() == want.size();
    if (vals_ok) for (size_t i = 0; i < want.size(); ++i) if (!num_eq(res.data()[i], want[i])) { vals_ok = false; break; }
    c.compared += (long)want.size();
    for (size_t i = 0; i < want.size() && i < (size_t)res.size(); ++i) { T v = res.data()[i] + T(0); c.digest_add(&v, 1); }
    if (dims_ok && vals_ok) return;
    ++c.bad;
    if (!c.mode.empty()) return;
    // diagnose: is the buffer exactly what the pairing-order defect predicts for the variants the library reported?
    std::map<int, int> variant;
    for (auto& kv : c.routes) { int k = 0, v = 0; if (sscanf(kv.first.c_str(), "network%d.variant=%d", &k, &v) == 2) variant[k] = v; }
    std::map<size_t, size_t> ext; label_extents(ops, ext);
    Sim s = sim_network<T>(ops, data, ext, variant);
    bool predicted = s.data.size() == (size_t)res.size();
    if (predicted) for (size_t i = 0; i < s.data.size(); ++i) if (!((long double)res.data()[i] == s.data[i])) { predicted = false; break; }
    std::string var; for (auto& kv : variant) var += "n" + std::to_string(kv.first) + "v" + std::to_string(kv.second);
    if (!dims_ok) { c.mode = "extents-mismatch"; c.first_bad = std::string(what) + ": result extents differ from the free indices in order of first appearance"; return; }
    if (predicted && !variant.empty()) { c.mode = "free-indices-in-pairing-order(flat-copied)"; c.first_bad = std::string(what) + ": elements are those of the pairwise evaluation order " + var + " (free indices in pairing order) flat-copied into the declared shape"; }
    else { c.mode = "mismatch"; size_t i = 0; for (; i < want.size(); ++i) if (!num_eq(res.data()[i], want[i])) break; c.first_bad = std::string(what) + "[" + std::to_string(i) + "] got " + vstr(res.data()[i]) + " want " + vstr(want[i]) + " (variants " + var + ", not explained by the pairing-order model)"; }
}

template <class T, class TA> inline void fill(TA& a, Rng& g) { fill_small(a.data(), TensVals<TA>::size, g, 3); }

template <int WHICH, class I0, class I1, class I2, class T0, class T1, class T2>
void net3(Ctx& c) {
    using T = typename TensVals<T0>::scalar; Rng g = c.rng(); T0 a; T1 b; T2 d;
    std::vector<Operand> ops = { { IdxVals<I0>::get(), TensVals<T0>::dims() }, { IdxVals<I1>::get(), TensVals<T1>::dims() }, { IdxVals<I2>::get(), TensVals<T2>::dims() } };
    for (int draw = 0; draw < 2; ++draw) {
        fill<T>(a, g); fill<T>(b, g); fill<T>(d, g);
        scrub_stack();
        if (WHICH == 0) { auto res = einsum<I0, I1, I2>(a, b, d); launder((void*)res.data()); judge_network<decltype(res), T>(c, res, ops, { a.data(), b.data(), d.data() }, "einsum<3>"); }
        else { auto res = contraction<I0, I1, I2>(a, b, d); launder((void*)res.data()); judge_network<decltype(res), T>(c, res, ops, { a.data(), b.data(), d.data() }, "contraction<3>"); }
    }
    c.nontrivial = true;
}
template <class I0, class I1, class I2, class I3, class T0, class T1, class T2, class T3>
void net4(Ctx& c) {
    using T = typename TensVals<T0>::scalar; Rng g = c.rng(); T0 a; T1 b; T2 d; T3 e;
    std::vector<Operand> ops = { { IdxVals<I0>::get(), TensVals<T0>::dims() }, { IdxVals<I1>::get(), TensVals<T1>::dims() }, { IdxVals<I2>::get(), TensVals<T2>::dims() }, { IdxVals<I3>::get(), TensVals<T3>::dims() } };
    for (int draw = 0; draw < 2; ++draw) {
        fill<T>(a, g); fill<T>(b, g); fill<T>(d, g); fill<T>(e, g);
        scrub_stack(); auto res = einsum<I0, I1, I2, I3>(a, b, d, e); launder((void*)res.data());
        judge_network<decltype(res), T>(c, res, ops, { a.data(), b.data(), d.data(), e.data() }, "einsum<4>");
    }
    c.nontrivial = true;
}
template <class I0, class I1, class I2, class I3, class I4, class T0, class T1, class T2, class T3, class T4>
void net5(Ctx& c) {
    using T = typename TensVals<T0>::scalar; Rng g = c.rng(); T0 a; T1 b; T2 d; T3 e; T4 f;
    std::vector<Operand> ops = { { IdxVals<I0>::get(), TensVals<T0>::dims() }, { IdxVals<I1>::get(), TensVals<T1>::dims() }, { IdxVals<I2>::get(), TensVals<T2>::dims() }, { IdxVals<I3>::get(), TensVals<T3>::dims() }, { IdxVals<I4>::get(), TensVals<T4>::dims() } };
    for (int draw = 0; draw < 2; ++draw) {
        fill<T>(a, g); fill<T>(b, g); fill<T>(d, g); fill<T>(e, g); fill<T>(f, g);
        scrub_stack(); auto res = einsum<I0, I1, I2, I3, I4>(a, b, d, e, f); launder((void*)res.data());
        judge_network<decltype(res), T>(c, res, ops, { a.data(), b.data(), d.data(), e.data(), f.data() }, "einsum<5>");
    }
    c.nontrivial = true;
}
}} // namespace
#endif
