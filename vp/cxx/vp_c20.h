// C20 -- wrapped/reshaped tensors are true aliases; layout conversions are exact inverses; construction stores row-major
#ifndef VP_C20_H
#define VP_C20_H
#include "vp_views.h"
#include "vp_c05.h"
#include "vp_c14.h"
#include <array>

namespace vp { namespace c20 {
using namespace Fastor; using namespace vp::vw;
using c05::apply; using c05::OPN; using c05::fill_parent; using c05::pick_scalar;

template <class T> inline void cmp3(Ctx& c, const T* buf, const T* twin, const T* model, size_t n, const std::string& what) {
    for (size_t i = 0; i < n; ++i) {
        c.compared += 2;
        bool a = same_val(buf[i], model[i]), b = same_val(twin[i], model[i]);
        if (a && b) continue;
        ++c.bad;
        if (c.mode.empty()) { c.mode = !a ? "map-effect-differs-from-model" : "owning-twin-differs-from-model"; c.first_bad = what + " offset " + std::to_string(i) + " buffer(map) " + vstr(buf[i]) + " twin " + vstr(twin[i]) + " model " + vstr(model[i]); }
    }
}

// ------------------------------------------------------------------ histories through a TensorMap over a guarded, misaligned buffer vs an owning twin vs a plain-array model
template <class T, size_t... D>
struct HIST {
    static constexpr size_t R = sizeof...(D);
    static constexpr size_t SZ = Tensor<T, D...>::size();
    template <class X, size_t... I> static void slice_assign(X& x, const std::vector<R1>& rs, int op, T s, std::index_sequence<I...>) {
        switch (op) { case 0: x(seq(rs[I].f, rs[I].l, rs[I].s)...) = s; break; case 1: x(seq(rs[I].f, rs[I].l, rs[I].s)...) += s; break; case 2: x(seq(rs[I].f, rs[I].l, rs[I].s)...) -= s; break; default: x(seq(rs[I].f, rs[I].l, rs[I].s)...) *= s; }
    }
    template <class X, size_t... I> static T& elem(X& x, const std::vector<int>& i, std::index_sequence<I...>) { return x(i[I]...); }
    template <class X> static void whole_scalar(X& x, int op, T s) { switch (op) { case 0: x.fill(s); break;   /* `map = scalar` has no overload (sentinel case map-assign-scalar) */ case 1: x += s; break; case 2: x -= s; break; case 3: x *= s; break; default: x /= s; } }
    template <class X, class Y> static void whole_tensor(X& x, int op, const Y& r) { switch (op) { case 0: x = r; break; case 1: x += r; break; case 2: x -= r; break; case 3: x *= r; break; default: x /= r; } }
    template <class X, class Y> static void whole_expr(X& x, int op, const Y& r) { switch (op) { case 0: x = r * T(2) + T(1); break; case 1: x += r * T(2) + T(1); break; case 2: x -= r * T(2) + T(1); break; case 3: x *= r * T(2) + T(1); break; default: x /= r * T(2) + T(1); } }

    static void run(Ctx& c) {
        Rng g = c.rng();
        std::vector<int> dims = { (int)D... };
        std::vector<std::vector<R1>> per(R); for (size_t n = 0; n < R; ++n) enum_ranges(dims[n], -1, per[n], false);
        T model[SZ]; Tensor<T, D...> Rt; std::vector<int> offs, idx(R);
        long steps = 0;
        for (size_t mis = 0; mis < 64; mis += (mis < 8 * sizeof(T) ? sizeof(T) : 16)) for (int tail = 0; tail < 2; ++tail) {
            Guard gb(sizeof(T) * SZ, tail != 0, tail ? 0 : mis);
            TensorMap<T, D...> M(gb.ptr<T>()); Tensor<T, D...> O;
            fill_parent(model, SZ, g); std::memcpy(M.data(), model, sizeof model); std::memcpy(O.data(), model, sizeof model);
            int len = (int)g.range(10, 50); std::string trace;
            for (int st = 0; st < len; ++st) {
                int kind = (int)(g.next() % 10), op = (int)(g.next() % 5);
                long double mx = 0; for (size_t i = 0; i < SZ; ++i) mx = std::max(mx, fabsl((long double)model[i]));
                if (mx > 2000) { if (op == 3) op = 2; if (kind == 2) kind = 0; }
                T s = opaque(pick_scalar<T>(g, op)); fill_parent(Rt.data(), SZ, g);
                switch (kind) {
                case 0: trace += std::string(" X") + OPN[op] + "s"; for (size_t i = 0; i < SZ; ++i) model[i] = apply(op, model[i], s); whole_scalar(M, op, s); whole_scalar(O, op, s); break;
                case 1: trace += std::string(" X") + OPN[op] + "R"; for (size_t i = 0; i < SZ; ++i) model[i] = apply(op, model[i], Rt.data()[i]); whole_tensor(M, op, Rt); whole_tensor(O, op, Rt); break;
                case 2: { bool z = false; if (op == 4) for (size_t i = 0; i < SZ; ++i) if ((T)(Rt.data()[i] * T(2) + T(1)) == T(0)) z = true; if (z) break;
                    trace += std::string(" X") + OPN[op] + "(R*2+1)"; for (size_t i = 0; i < SZ; ++i) model[i] = apply(op, model[i], (T)(Rt.data()[i] * T(2) + T(1))); whole_expr(M, op, Rt); whole_expr(O, op, Rt); break; }
                case 3: { int off = 0; for (size_t n = 0; n < R; ++n) { idx[n] = (int)g.range(0, dims[n] - 1); off = off * dims[n] + idx[n]; } T v = (T)g.range(-50, 50);
                    trace += " X(i)=v"; model[off] = v; elem(M, idx, std::make_index_sequence<R>()) = v; elem(O, idx, std::make_index_sequence<R>()) = v; break; }
                case 4: { std::vector<R1> rs; for (size_t n = 0; n < R; ++n) rs.push_back(per[n][g.next() % per[n].size()]); offsets(dims, rs, offs); int o2 = op == 4 ? 3 : op;
                    trace += std::string(" X(slice)") + OPN[o2] + "s"; for (int o : offs) model[o] = apply(o2, model[o], s); slice_assign(M, rs, o2, s, std::make_index_sequence<R>()); slice_assign(O, rs, o2, s, std::make_index_sequence<R>()); break; }
                case 5: { int w = (int)(g.next() % 3); T v = (T)g.range(-9, 9);
                    if (w == 0) { trace += " fill"; for (size_t i = 0; i < SZ; ++i) model[i] = v; M.fill(v); O.fill(v); }
                    else if (w == 1) { trace += " iota"; for (size_t i = 0; i < SZ; ++i) model[i] = (T)(v + (T)i); M.iota(v); O.iota(v); }
                    else { trace += " zeros"; for (size_t i = 0; i < SZ; ++i) model[i] = T(0); M.zeros(); O.zeros(); } break; }
                case 7: case 8: { // the right-hand side is itself a map of the SAME storage (a second map / reshape<same extents> / flatten): x op= x element by element
                    bool z = false; if (op == 4) for (size_t i = 0; i < SZ; ++i) if (model[i] == T(0)) z = true;
                    if (z || (op == 3 && mx > 40)) break;
                    for (size_t i = 0; i < SZ; ++i) model[i] = apply(op, model[i], model[i]);
                    if (kind == 7) { trace += std::string(" X") + OPN[op] + "map-of-X"; TensorMap<T, D...> M2(M.data()); whole_tensor(M, op, M2); whole_tensor(O, op, reshape<D...>(O)); }
                    else { trace += std::string(" X") + OPN[op] + "flatten(X)"; TensorMap<T, SZ> Mf(M.data()); whole_tensor(M, op, Mf); whole_tensor(O, op, flatten(O)); }
                    break; }
                case 9: { // the right-hand side is a map of ANOTHER buffer (holding R): values have to be copied / combined into this buffer
                    bool z = false; if (op == 4) for (size_t i = 0; i < SZ; ++i) if (Rt.data()[i] == T(0)) z = true;
                    if (z) break;
                    trace += std::string(" X") + OPN[op] + "map-of-R"; for (size_t i = 0; i < SZ; ++i) model[i] = apply(op, model[i], Rt.data()[i]);
                    TensorMap<T, D...> MR(Rt.data()); whole_tensor(M, op, MR); whole_tensor(O, op, MR); break; }
                default: { // read through the map into an expression assigned to an owning tensor, then back
                    trace += " X=X+R(via tmp)"; Tensor<T, D...> tmpM = M + Rt, tmpO = O + Rt; for (size_t i = 0; i < SZ; ++i) model[i] = model[i] + Rt.data()[i]; M = tmpM; O = tmpO; break; }
                }
                launder(gb.ptr<T>()); launder(O.data());
                size_t before = c.bad;
                ++c.checks; if (M.data() != gb.ptr<T>()) { c.fail("map-retargeted", "after step " + std::to_string(st) + ":" + trace + " the map no longer denotes the buffer it was constructed over"); gb.verify(c, "map buffer"); c.sub = steps; return; }
                cmp3(c, gb.ptr<T>(), O.data(), model, SZ, "after step " + std::to_string(st) + ":" + (trace.size() > 300 ? trace.substr(trace.size() - 300) : trace));
                ++steps;
                if (c.bad != before) { gb.verify(c, "map buffer"); c.sub = steps; return; }
            }
            gb.verify(c, "map buffer");
        }
        c.sub = steps; c.nontrivial = true;
    }
};

// rank-2 specific: matmul into a map, transpose from a map
template <class T, size_t M_, size_t K_, size_t N_>
void map_linalg(Ctx& c) {
    Rng g = c.rng();
    for (size_t mis = 0; mis < 64; mis += 4 * sizeof(T)) {
        Guard ga(sizeof(T) * M_ * K_, true, 0), gb(sizeof(T) * K_ * N_, false, mis), gc(sizeof(T) * M_ * N_, true, 0);
        TensorMap<T, M_, K_> A(ga.ptr<T>()); TensorMap<T, K_, N_> B(gb.ptr<T>()); TensorMap<T, M_, N_> C(gc.ptr<T>());
        fill_small(A.data(), M_ * K_, g, 5); fill_small(B.data(), K_ * N_, g, 5); paint(C.data(), M_ * N_);
        T ref[M_ * N_]; for (size_t i = 0; i < M_; ++i) for (size_t j = 0; j < N_; ++j) { T s = T(0); for (size_t k = 0; k < K_; ++k) s += A.data()[i * K_ + k] * B.data()[k * N_ + j]; ref[i * N_ + j] = s; }
        VP_LIB(C = matmul(A, B)); launder(C.data());
        for (size_t i = 0; i < M_ * N_; ++i) c.eqn(C.data()[i], ref[i], "map=matmul(map,map)", (long)i, "map-effect-differs-from-model");
        scrub_stack(); Tensor<T, N_, M_> Tt = transpose(C); launder(Tt.data());
        for (size_t i = 0; i < M_; ++i) for (size_t j = 0; j < N_; ++j) c.eqn(Tt.data()[j * M_ + i], ref[i * N_ + j], "transpose(map)", (long)(i * N_ + j), "map-effect-differs-from-model");
        ga.verify(c, "A"); gb.verify(c, "B"); gc.verify(c, "C"); ++c.sub;
    }
    c.nontrivial = true;
}

// ------------------------------------------------------------------ reshape / flatten / squeeze maps alias their source, in both directions
template <class T, class SRC, class DST> struct RESHAPE;
template <class T, size_t... S, size_t... Dd>
struct RESHAPE<T, Index<S...>, Index<Dd...>> {
    static void run(Ctx& c) {
        Rng g = c.rng();
        Tensor<T, S...> A; constexpr size_t SZ = Tensor<T, S...>::size(); T model[SZ];
        fill_parent(model, SZ, g); std::memcpy(A.data(), model, sizeof model); launder(A.data());
        auto Mr = reshape<Dd...>(A); auto Mf = flatten(A);
        c.check((void*)Mr.data() == (void*)A.data(), "reshape-not-an-alias", "reshape<...>(A).data() != A.data()");
        c.check((void*)Mf.data() == (void*)A.data(), "flatten-not-an-alias", "flatten(A).data() != A.data()");
        std::vector<int> ddims = { (int)Dd... };
        c.check(Mf.size() == SZ && Mr.size() == SZ, "size-mismatch");
        for (size_t n = 0; n < ddims.size(); ++n) c.check((int)Mr.dimension(n) == ddims[n], "extents-mismatch", "reshape extents");
        for (int st = 0; st < 60; ++st) {
            int who = (int)(g.next() % 3), op = (int)(g.next() % 4); T s = opaque(pick_scalar<T>(g, op));
            long double mx = 0; for (size_t i = 0; i < SZ; ++i) mx = std::max(mx, fabsl((long double)model[i])); if (mx > 2000 && op == 3) op = 2;
            if (st % 5 == 4) { size_t k = g.next() % SZ; T v = (T)g.range(-50, 50); model[k] = v; if (who == 0) A.data()[k] = v; else Mf(k) = v; }
            else { for (size_t i = 0; i < SZ; ++i) model[i] = apply(op, model[i], s);
                if (who == 0) { switch (op) { case 0: A = s; break; case 1: A += s; break; case 2: A -= s; break; default: A *= s; } }
                else if (who == 1) { switch (op) { case 0: Mr.fill(s); break; case 1: Mr += s; break; case 2: Mr -= s; break; default: Mr *= s; } }
                else { switch (op) { case 0: Mf.fill(s); break; case 1: Mf += s; break; case 2: Mf -= s; break; default: Mf *= s; } } }
            launder(A.data());
            // visible through the source, the reshaped map and the flat map at the same row-major offset
            for (size_t i = 0; i < SZ; ++i) { c.eq(A.data()[i], model[i], "source after write", (long)i, "alias-not-visible-in-source"); c.eq((T)Mf(i), model[i], "flatten map read", (long)i, "alias-not-visible-in-map"); c.eq(Mr.data()[i], model[i], "reshape map read", (long)i, "alias-not-visible-in-map"); }
            ++c.sub;
        }
        c.nontrivial = true;
    }
};
template <class T, size_t... S>
void squeeze_case(Ctx& c) {
    Rng g = c.rng(); Tensor<T, S...> A; constexpr size_t SZ = Tensor<T, S...>::size(); T model[SZ];
    fill_parent(model, SZ, g); std::memcpy(A.data(), model, sizeof model);
    auto Ms = squeeze(A);
    c.check((void*)Ms.data() == (void*)A.data(), "squeeze-not-an-alias", "squeeze(A).data() != A.data()");
    std::vector<size_t> want; { size_t d[] = { S... }; for (size_t x : d) if (x != 1) want.push_back(x); }
    c.check(Ms.rank() == want.size(), "extents-mismatch", "squeeze rank"); for (size_t n = 0; n < want.size() && n < Ms.rank(); ++n) c.check(Ms.dimension(n) == want[n], "extents-mismatch", "squeeze extents");
    Ms += T(3); for (size_t i = 0; i < SZ; ++i) model[i] += T(3); launder(A.data());
    for (size_t i = 0; i < SZ; ++i) c.eq(A.data()[i], model[i], "source after squeeze-map write", (long)i, "alias-not-visible-in-source");
    A *= T(2); for (size_t i = 0; i < SZ; ++i) model[i] *= T(2);
    for (size_t i = 0; i < SZ; ++i) c.eq(Ms.data()[i], model[i], "squeeze map after source write", (long)i, "alias-not-visible-in-map");
    c.nontrivial = true;
}

// ------------------------------------------------------------------ layout conversion
inline size_t cm_offset(const std::vector<size_t>& dims, const std::vector<size_t>& idx) { size_t off = 0, stride = 1; for (size_t n = 0; n < dims.size(); ++n) { off += idx[n] * stride; stride *= dims[n]; } return off; }
template <class T, size_t... D>
struct LAYOUT {
    template <size_t... I> static T at(const Tensor<T, D...>& A, const std::vector<size_t>& i, std::index_sequence<I...>) { return A((int)i[I]...); }
    static void run(Ctx& c) {
        constexpr size_t SZ = Tensor<T, D...>::size(); constexpr size_t R = sizeof...(D);
        std::vector<size_t> dims = { D... };
        alignas(64) T buf[SZ]; fill_unique(buf, SZ, 100);
        Tensor<T, D...> A(buf, ColumnMajor), B(buf, RowMajor); launder(A.data());
        Tensor<T, D...> Rm; std::memcpy(Rm.data(), buf, sizeof buf); launder(Rm.data());
        scrub_stack(); Tensor<T, D...> Cm = tocolumnmajor(Rm); launder(Cm.data());
        scrub_stack(); Tensor<T, D...> Back = torowmajor(tocolumnmajor(Rm)); launder(Back.data());
        scrub_stack(); Tensor<T, D...> Back2 = tocolumnmajor(torowmajor(Rm)); launder(Back2.data());
        scrub_stack(); Tensor<T, D...> Tr = torowmajor(Rm); launder(Tr.data());
        std::vector<size_t> idx(R, 0);
        do {
            size_t rm = c14::flat(dims, idx), cm = cm_offset(dims, idx);
            c.eq(at(A, idx, std::make_index_sequence<R>()), buf[cm], "Tensor(ptr,ColumnMajor)(i...)", (long)rm, "layout-wrong-offset");
            c.eq(at(B, idx, std::make_index_sequence<R>()), buf[rm], "Tensor(ptr,RowMajor)(i...)", (long)rm, "construction-not-row-major");
            c.eq(at(Cm, idx, std::make_index_sequence<R>()), Rm.data()[cm], "tocolumnmajor(A)(i...) == A.data()[cm(i)]", (long)rm, "layout-wrong-offset");
            c.eq(Tr.data()[cm], at(Rm, idx, std::make_index_sequence<R>()), "torowmajor(A).data()[cm(i)] == A(i...)", (long)rm, "layout-wrong-offset");
        } while (c14::next(dims, idx));
        for (size_t i = 0; i < SZ; ++i) { c.eq(Back.data()[i], Rm.data()[i], "torowmajor(tocolumnmajor(A))", (long)i, "layout-not-inverse"); c.eq(Back2.data()[i], Rm.data()[i], "tocolumnmajor(torowmajor(A))", (long)i, "layout-not-inverse"); }
        // std::array / std::vector constructors store row-major
        std::array<T, SZ> arr; std::vector<T> vec(SZ); for (size_t i = 0; i < SZ; ++i) { arr[i] = buf[i]; vec[i] = buf[i]; }
        Tensor<T, D...> Ea(arr), Ev(vec); launder(Ea.data());
        for (size_t i = 0; i < SZ; ++i) { c.eq(Ea.data()[i], buf[i], "Tensor(std::array)", (long)i, "construction-not-row-major"); c.eq(Ev.data()[i], buf[i], "Tensor(std::vector)", (long)i, "construction-not-row-major"); }
        c.nontrivial = SZ > 1;
        if (SZ == 1) c.nontrivial = true;
    }
};
// sentinels: operations that exist for an owning destination but have no overload for a TensorMap destination today
template <class T, size_t N> void map_assign_scalar(Ctx& c) { alignas(64) T buf[N]; TensorMap<T, N> M(buf); M = T(3); for (size_t i = 0; i < N; ++i) c.eq(buf[i], T(3), "map=scalar", (long)i); c.nontrivial = true; }
template <class T, size_t N> void map_assign_lazy_matmul(Ctx& c) { alignas(64) T buf[N * N]; TensorMap<T, N, N> M(buf); Tensor<T, N, N> A, B; A.iota(1); B.iota(2); M = A % B; Tensor<T, N, N> R = matmul(A, B); for (size_t i = 0; i < N * N; ++i) c.eqn(buf[i], R.data()[i], "map=A%B", (long)i); c.nontrivial = true; }
// initializer-list constructors ranks 1-4 (values written explicitly by the generator)
template <class TT> void init_list_check(Ctx& c, const TT& A, const std::vector<long>& vals) {
    c.check((size_t)A.size() == vals.size(), "size-mismatch", "initializer list size");
    for (size_t i = 0; i < vals.size() && i < (size_t)A.size(); ++i) c.eq(A.data()[i], (typename TT::scalar_type)vals[i], "Tensor{init-list} row-major", (long)i, "construction-not-row-major");
    c.nontrivial = true;
}
}} // namespace
#endif
