// C04 -- reading through an index or a slice returns exactly the selected elements
#ifndef VP_C04_H
#define VP_C04_H
#include "vp_views.h"
#include <utility>

namespace vp { namespace c04 {
using namespace Fastor; using namespace vp::vw;

static const long BASE = 1000;

// ------------------------------------------------------------------ further read routes of one view: a view is consumed through several evaluators
// (flat SIMD eval<V>(i) by compound assignment and reductions, flat scalar tail, n-D teval by same-rank assignment, flat copy into a tensor of
// another rank); every one of them has to deliver the selected elements.  mk() builds the view afresh for each consumer.
template <class T, class OT, class MK> inline void flat_copy(Ctx& c, MK mk, const T* parent, const std::vector<int>& offs, const std::string& d, std::true_type) {
    scrub_stack(); Tensor<T, OT::size()> o = mk(); launder(o.data()); cmp_pick(c, o.data(), parent, offs, "Tensor<T,size> flat=view", d, BASE); }
// (index-tensor views do not offer construction of a tensor of another rank: not demanded)
template <class T, class OT, class MK> inline void flat_copy(Ctx&, MK, const T*, const std::vector<int>&, const std::string&, std::false_type) {}
template <class T, class OT, bool FLAT = true, class MK>
inline void routes(Ctx& c, MK mk, const T* parent, const std::vector<int>& offs, const std::string& d) {
    if ((size_t)OT::size() != offs.size()) { c.fail("extents-mismatch", "size " + d); return; }
    { scrub_stack(); OT o; o.zeros(); launder(o.data()); o += mk(); launder(o.data()); cmp_pick(c, o.data(), parent, offs, "o=0; o+=view", d, BASE); }
    { scrub_stack(); OT o; o.fill(T(1)); launder(o.data()); o *= mk(); launder(o.data()); cmp_pick(c, o.data(), parent, offs, "o=1; o*=view", d, BASE); }
    { scrub_stack(); OT o; o.zeros(); launder(o.data()); o += T(2) * mk() - mk(); launder(o.data()); cmp_pick(c, o.data(), parent, offs, "o=0; o+=2*view-view", d, BASE); }
    flat_copy<T, OT>(c, mk, parent, offs, d, std::integral_constant<bool, FLAT>());
    { scrub_stack(); T s = sum(mk()); T w = 0; for (int k : offs) w += parent[k]; ++c.compared; c.digest_add(&s, 1);
      if (!num_eq(s, w)) { ++c.bad; if (c.mode.empty()) { c.mode = "wrong-element-selected"; c.first_bad = "sum(view) " + d + " got " + vstr(s) + " want " + vstr(w); } } }
}

// ------------------------------------------------------------------ dynamic 1-D views, runtime-exhaustive over all ranges of extent m
template <class T, size_t N, size_t m>
void read1d(Ctx& c) {
    Tensor<T, N> A, B; fill_unique(A.data(), N, BASE); fill_unique(B.data(), N, 5 * BASE);
    const Tensor<T, N>& cA = A;
    alignas(64) T mapbuf[N]; std::memcpy(mapbuf, A.data(), sizeof mapbuf); TensorMap<T, N> MA(mapbuf);
    std::vector<R1> rs; enum_ranges((int)N, (int)m, rs);
    std::vector<int> offs, offs2;
    T want[m];
    for (size_t k = 0; k < rs.size(); ++k) {
        const R1& r = rs[k]; const R1& r2 = rs[(k * 7 + 3) % rs.size()];
        offsets({ (int)N }, { r }, offs); offsets({ (int)N }, { r2 }, offs2);
        seq sq(opaque(r.F), opaque(r.L), opaque(r.S)), sq2(opaque(r2.F), opaque(r2.L), opaque(r2.S));
        { Tensor<T, m> o = A(sq); launder(o.data()); cmp_pick(c, o.data(), A.data(), offs, "Tensor r=A(seq)", show(r), BASE); }
        { Tensor<T, m> o = cA(sq); launder(o.data()); cmp_pick(c, o.data(), A.data(), offs, "Tensor r=constA(seq)", show(r), BASE); }
        { Tensor<T, m> o = MA(sq); launder(o.data()); cmp_pick(c, o.data(), A.data(), offs, "Tensor r=map(seq)", show(r), BASE); }
        { Tensor<T, m> o = A(sq) + B(sq2) * T(2); launder(o.data());
          for (size_t j = 0; j < m; ++j) want[j] = A.data()[offs[j]] + B.data()[offs2[j]] * T(2);
          for (size_t j = 0; j < m; ++j) { ++c.compared; if (!same_val(o.data()[j], want[j])) { ++c.bad; if (c.mode.empty()) { c.mode = "wrong-element-selected"; c.first_bad = "A(s)+B(s')*2 " + show(r) + " " + show(r2) + " element " + std::to_string(j); } } } }
        routes<T, Tensor<T, m>>(c, [&]() { return A(sq); }, A.data(), offs, show(r));
        if (k % 3 == 0) routes<T, Tensor<T, m>>(c, [&]() { return cA(sq); }, A.data(), offs, "const " + show(r));
        { Tensor<T, m> o; o = -A(sq); launder(o.data()); for (size_t j = 0; j < m; ++j) { ++c.compared; if (!same_val(o.data()[j], (T)(-A.data()[offs[j]]))) { ++c.bad; if (c.mode.empty()) { c.mode = "wrong-element-selected"; c.first_bad = "-A(s) " + show(r) + " element " + std::to_string(j); } } } }
        ++c.sub;
    }
    c.notes["ranges"] += (long)rs.size();
    c.nontrivial = rs.size() > 0 && N > 1;
}

// single-integer forms: seq(k) and the last element seq(-1)/seq(last)
template <class T, size_t N>
void read1d_single(Ctx& c) {
    Tensor<T, N> A; fill_unique(A.data(), N, BASE);
    for (int k = 0; k < (int)N; ++k) { Tensor<T, 1> o = A(seq(opaque(k))); c.eq(o.data()[0], A.data()[k], "A(seq(k))", k, "wrong-element-selected"); }
    { Tensor<T, 1> o = A(seq(opaque(-1))); c.eq(o.data()[0], A.data()[N - 1], "A(seq(-1))", -1, "wrong-element-selected:seq(-1)"); }
    { Tensor<T, 1> o = A(fix<-1>); c.eq(o.data()[0], A.data()[N - 1], "A(fix<-1>)", -1, "wrong-element-selected:fix<-1>"); }
    { Tensor<T, N> o = A(seq(first, last)); for (size_t j = 0; j < N; ++j) c.eq(o.data()[j], A.data()[j], "A(seq(first,last))", (long)j, "wrong-element-selected"); }
    { Tensor<T, N> o = A(all); for (size_t j = 0; j < N; ++j) c.eq(o.data()[j], A.data()[j], "A(all)", (long)j, "wrong-element-selected"); }
    c.nontrivial = true;
}

// ------------------------------------------------------------------ dynamic 2-D views
template <class T, size_t M, size_t N, size_t m, size_t n>
void read2d(Ctx& c) {
    Rng g = c.rng();
    Tensor<T, M, N> A, B; fill_unique(A.data(), M * N, BASE); fill_unique(B.data(), M * N, 5 * BASE);
    alignas(64) T mapbuf[M * N]; std::memcpy(mapbuf, A.data(), sizeof mapbuf); TensorMap<T, M, N> MA(mapbuf); const Tensor<T, M, N>& cA = A;
    std::vector<R1> r0, r1; enum_ranges((int)M, (int)m, r0); enum_ranges((int)N, (int)n, r1);
    size_t total = r0.size() * r1.size(); const size_t CAP = 4000;
    std::vector<int> offs;
    for (size_t k = 0; k < (total < CAP ? total : CAP); ++k) {
        size_t pick = total <= CAP ? k : (size_t)(g.next() % total);
        const R1& a = r0[pick / r1.size()]; const R1& b = r1[pick % r1.size()];
        offsets({ (int)M, (int)N }, { a, b }, offs);
        seq s0(opaque(a.F), opaque(a.L), opaque(a.S)), s1(opaque(b.F), opaque(b.L), opaque(b.S));
        std::string d = show(a) + "," + show(b);
        { Tensor<T, m, n> o = A(s0, s1); launder(o.data()); cmp_pick(c, o.data(), A.data(), offs, "r=A(seq,seq)", d, BASE); }
        { Tensor<T, m, n> o = MA(s0, s1); launder(o.data()); cmp_pick(c, o.data(), A.data(), offs, "r=map(seq,seq)", d, BASE); }
        { Tensor<T, m, n> o = A(s0, s1) - B(s0, s1); launder(o.data());
          for (size_t j = 0; j < m * n; ++j) { ++c.compared; T w = A.data()[offs[j]] - B.data()[offs[j]]; if (!same_val(o.data()[j], w)) { ++c.bad; if (c.mode.empty()) { c.mode = "wrong-element-selected"; c.first_bad = "A(s,s)-B(s,s) " + d + " element " + std::to_string(j); } } } }
        routes<T, Tensor<T, m, n>>(c, [&]() { return A(s0, s1); }, A.data(), offs, d);
        { Tensor<T, m, n> o = cA(s0, s1); launder(o.data()); cmp_pick(c, o.data(), A.data(), offs, "r=constA(seq,seq)", d, BASE); }
        if (k % 5 == 0) routes<T, Tensor<T, m, n>>(c, [&]() { return cA(s0, s1); }, A.data(), offs, "const " + d);
        { Tensor<T, m, n> o; o = abs(A(s0, s1)); launder(o.data()); cmp_pick(c, o.data(), A.data(), offs, "abs(A(seq,seq))", d, BASE); }
        ++c.sub;
    }
    c.notes["range-pairs-available"] += (long)total;
    c.nontrivial = total > 0;
}

// integer mixed with ranges on rank 2: A(i,seq), A(seq,j), A(i,fseq), A(fseq,j); i,j >= 0 and -1 (last)
template <class T, size_t M, size_t N>
void read2d_int(Ctx& c) {
    Tensor<T, M, N> A; fill_unique(A.data(), M * N, BASE); const Tensor<T, M, N>& cA = A;
    for (int i = -1; i < (int)M; ++i) {
        int ii = i < 0 ? (int)M - 1 : i;
        { Tensor<T, 1, N> o = A(opaque(i), seq(0, (int)N)); for (size_t j = 0; j < N; ++j) c.eq(o.data()[j], A.data()[ii * N + j], "A(i,seq)", (long)j, "wrong-element-selected:A(int,seq)"); }
        { Tensor<T, 1, N> o = cA(opaque(i), seq(0, (int)N)); for (size_t j = 0; j < N; ++j) c.eq(o.data()[j], A.data()[ii * N + j], "constA(i,seq)", (long)j, "wrong-element-selected:A(int,seq)"); }
        { Tensor<T, 1, N> o = A(opaque(i), fseq<0, (int)N>()); for (size_t j = 0; j < N; ++j) c.eq(o.data()[j], A.data()[ii * N + j], "A(i,fseq)", (long)j, "wrong-element-selected:A(int,fseq)"); }
        { Tensor<T, 1, N> o = cA(opaque(i), fseq<0, (int)N>()); for (size_t j = 0; j < N; ++j) c.eq(o.data()[j], A.data()[ii * N + j], "constA(i,fseq)", (long)j, "wrong-element-selected:A(int,fseq)"); }
        { Tensor<T, 1, N> o = A(opaque(i), all); for (size_t j = 0; j < N; ++j) c.eq(o.data()[j], A.data()[ii * N + j], "A(i,all)", (long)j, "wrong-element-selected:A(int,all)"); }
    }
    for (int j = -1; j < (int)N; ++j) {
        int jj = j < 0 ? (int)N - 1 : j;
        { Tensor<T, M, 1> o = A(seq(0, (int)M), opaque(j)); for (size_t i = 0; i < M; ++i) c.eq(o.data()[i], A.data()[i * N + jj], "A(seq,j)", (long)i, "wrong-element-selected:A(seq,int)"); }
        { Tensor<T, M, 1> o = cA(seq(0, (int)M), opaque(j)); for (size_t i = 0; i < M; ++i) c.eq(o.data()[i], A.data()[i * N + jj], "constA(seq,j)", (long)i, "wrong-element-selected:A(seq,int)"); }
        { Tensor<T, M, 1> o = A(fseq<0, (int)M>(), opaque(j)); for (size_t i = 0; i < M; ++i) c.eq(o.data()[i], A.data()[i * N + jj], "A(fseq,j)", (long)i, "wrong-element-selected:A(fseq,int)"); }
        { Tensor<T, M, 1> o = cA(fseq<0, (int)M>(), opaque(j)); for (size_t i = 0; i < M; ++i) c.eq(o.data()[i], A.data()[i * N + jj], "constA(fseq,j)", (long)i, "wrong-element-selected:A(fseq,int)"); }
        { Tensor<T, M, 1> o = A(all, opaque(j)); for (size_t i = 0; i < M; ++i) c.eq(o.data()[i], A.data()[i * N + jj], "A(all,j)", (long)i, "wrong-element-selected:A(all,int)"); }
    }
    c.nontrivial = true;
}

// ------------------------------------------------------------------ dynamic n-D views (rank >= 3), sampled
template <class T, class PD, class RD> struct ND;
template <class T, size_t... D, size_t... Mx>
struct ND<T, Index<D...>, Index<Mx...>> {
    static constexpr size_t R = sizeof...(D);
    template <size_t... I>
    static void one(Ctx& c, Tensor<T, D...>& A, Tensor<T, D...>& B, const std::vector<R1>& rs, const std::vector<int>& offs, std::index_sequence<I...>) {
        std::string d; for (auto& r : rs) d += show(r) + ",";
        { Tensor<T, Mx...> o = A(seq(opaque(rs[I].F), opaque(rs[I].L), opaque(rs[I].S))...); launder(o.data()); cmp_pick(c, o.data(), A.data(), offs, "r=A(seq...)", d, BASE); }
        routes<T, Tensor<T, Mx...>>(c, [&]() { return A(seq(opaque(rs[I].F), opaque(rs[I].L), opaque(rs[I].S))...); }, A.data(), offs, d);
        { const Tensor<T, D...>& cA = A; Tensor<T, Mx...> o = cA(seq(opaque(rs[I].F), opaque(rs[I].L), opaque(rs[I].S))...); launder(o.data()); cmp_pick(c, o.data(), A.data(), offs, "r=constA(seq...)", d, BASE);
          if (c.sub % 4 == 0) routes<T, Tensor<T, Mx...>>(c, [&]() { return cA(seq(opaque(rs[I].F), opaque(rs[I].L), opaque(rs[I].S))...); }, A.data(), offs, "const " + d); }
        { Tensor<T, Mx...> o = A(seq(rs[I].F, rs[I].L, rs[I].S)...) + B(seq(rs[I].F, rs[I].L, rs[I].S)...); launder(o.data());
          for (size_t j = 0; j < offs.size(); ++j) { ++c.compared; T w = A.data()[offs[j]] + B.data()[offs[j]]; if (!same_val(o.data()[j], w)) { ++c.bad; if (c.mode.empty()) { c.mode = "wrong-element-selected"; c.first_bad = "A(s...)+B(s...) " + d + " element " + std::to_string(j); } } } }
    }
    static void run(Ctx& c) {
        Rng g = c.rng();
        Tensor<T, D...> A, B; fill_unique(A.data(), A.size(), BASE); fill_unique(B.data(), B.size(), 7 * BASE);
        std::vector<int> dims = { (int)D... }, ms = { (int)Mx... };
        std::vector<std::vector<R1>> per(R);
        for (size_t n = 0; n < R; ++n) { enum_ranges(dims[n], ms[n], per[n]); if (per[n].empty()) { c.fail("harness", "no range with the requested extent"); return; } }
        std::vector<int> offs;
        for (int it = 0; it < 400; ++it) {
            std::vector<R1> rs; for (size_t n = 0; n < R; ++n) rs.push_back(per[n][g.next() % per[n].size()]);
            offsets(dims, rs, offs);
            one(c, A, B, rs, offs, std::make_index_sequence<R>());
            ++c.sub;
        }
        c.nontrivial = true;
    }
};

// ------------------------------------------------------------------ compile-time ranges (fseq / iseq / all / fix) and mixtures
template <int F, int L, int S> struct FS { static constexpr int f = F, l = L, s = S; };
inline R1 norm_fixed(int F, int L, int S, int N) {   // the documented negative / last-relative convention
    int f, l;
    if (L == 0 && F == -1) { f = N - 1; l = N; }
    else if (L < 0 && F < 0) { f = F + N + 1; l = L + N + 1; }
    else if (L < 0 && F >= 0) { f = F; l = L + N + 1; }
    else { f = F; l = L; }
    return { F, L, S, f, l, S, extent(f, l, S), 3 };
}
constexpr int cnf(int F, int L, int N) { return (L == 0 && F == -1) ? N - 1 : ((L < 0 && F < 0) ? F + N + 1 : F); }
constexpr int cnl(int F, int L, int N) { return (L == 0 && F == -1) ? N : (L < 0 ? L + N + 1 : L); }
constexpr size_t cext(int F, int L, int S, int N) { return (size_t)(((cnl(F, L, N) - cnf(F, L, N)) % S == 0) ? (cnl(F, L, N) - cnf(F, L, N)) / S : (cnl(F, L, N) - cnf(F, L, N)) / S + 1); }
template <class T, class PD, class... Fs> struct FIX;
template <class T, size_t... D, class... Fs>
struct FIX<T, Index<D...>, Fs...> {
    static void run(Ctx& c) {
        Tensor<T, D...> A, B; fill_unique(A.data(), A.size(), BASE); fill_unique(B.data(), B.size(), 7 * BASE);
        const Tensor<T, D...>& cA = A;
        std::vector<int> dims = { (int)D... };
        std::vector<R1> rs = { norm_fixed(Fs::f, Fs::l, Fs::s, 0)... };
        for (size_t n = 0; n < rs.size(); ++n) rs[n] = norm_fixed(rs[n].F, rs[n].L, rs[n].S, dims[n]);
        std::vector<int> offs; offsets(dims, rs, offs);
        std::string d; for (auto& r : rs) d += show(r) + ",";
        std::vector<size_t> want_dims; for (auto& r : rs) want_dims.push_back((size_t)r.m);
        { scrub_stack(); auto o = evaluate(A(fseq<Fs::f, Fs::l, Fs::s>()...)); launder((void*)o.data());
          std::vector<size_t> gd; for (size_t n = 0; n < rs.size(); ++n) gd.push_back(o.dimension(n));
          c.check(gd == want_dims, "extents-mismatch", "fixed view extents " + d); if (o.size() == offs.size()) cmp_pick(c, o.data(), A.data(), offs, "evaluate(A(fseq...))", d, BASE); else c.fail("extents-mismatch", "size"); }
        { scrub_stack(); auto o = evaluate(cA(fseq<Fs::f, Fs::l, Fs::s>()...)); launder((void*)o.data()); if (o.size() == offs.size()) cmp_pick(c, o.data(), A.data(), offs, "evaluate(constA(fseq...))", d, BASE); }
        { scrub_stack(); auto o = evaluate(A(fseq<Fs::f, Fs::l, Fs::s>()...) + B(fseq<Fs::f, Fs::l, Fs::s>()...)); launder((void*)o.data());
          for (size_t j = 0; j < offs.size() && j < (size_t)o.size(); ++j) { ++c.compared; T w = A.data()[offs[j]] + B.data()[offs[j]]; if (!same_val(o.data()[j], w)) { ++c.bad; if (c.mode.empty()) { c.mode = "wrong-element-selected"; c.first_bad = "A(f...)+B(f...) " + d + " element " + std::to_string(j); } } } }
        routes<T, Tensor<T, cext(Fs::f, Fs::l, Fs::s, (int)D)...>>(c, [&]() { return A(fseq<Fs::f, Fs::l, Fs::s>()...); }, A.data(), offs, d);
        routes<T, Tensor<T, cext(Fs::f, Fs::l, Fs::s, (int)D)...>>(c, [&]() { return cA(fseq<Fs::f, Fs::l, Fs::s>()...); }, A.data(), offs, "const " + d);
        // the same ranges handed over as dynamic seq (fseq converts to seq): both routes must agree
        { scrub_stack(); Tensor<T, cext(Fs::f, Fs::l, Fs::s, (int)D)...> o = A(seq(fseq<Fs::f, Fs::l, Fs::s>())...); launder((void*)o.data());
          if (o.size() == offs.size()) cmp_pick(c, o.data(), A.data(), offs, "r=A(seq(fseq)...)", d, BASE); else c.fail("extents-mismatch", "size"); }
        c.nontrivial = offs.size() > 1 || A.size() == 1;
    }
};

// iseq (immediate) ranks 1-2
template <class T, size_t N, size_t F, size_t L, size_t S>
void iseq1(Ctx& c) {
    Tensor<T, N> A; fill_unique(A.data(), N, BASE);
    auto o = A(iseq<F, L, S>()); size_t j = 0;
    for (size_t i = F; i < L; i += S, ++j) c.eq(o.data()[j], A.data()[i], "A(iseq)", (long)j, "wrong-element-selected:iseq");
    c.check(o.size() == j, "extents-mismatch", "iseq extent"); c.nontrivial = true;
}
template <class T, size_t M, size_t N, size_t F0, size_t L0, size_t S0, size_t F1, size_t L1, size_t S1>
void iseq2(Ctx& c) {
    Tensor<T, M, N> A; fill_unique(A.data(), M * N, BASE);
    auto o = A(iseq<F0, L0, S0>(), iseq<F1, L1, S1>()); size_t k = 0;
    for (size_t i = F0; i < L0; i += S0) for (size_t j = F1; j < L1; j += S1, ++k) c.eq(o.data()[k], A.data()[i * N + j], "A(iseq,iseq)", (long)k, "wrong-element-selected:iseq");
    c.check(o.size() == k, "extents-mismatch", "iseq extent"); c.nontrivial = true;
}

// ------------------------------------------------------------------ scalar indexing A(i0,...,ik), positive and negative, ranks 1..6
template <class T, size_t... D>
struct SC {
    static constexpr size_t R = sizeof...(D);
    template <size_t... I> static const T& at(const Tensor<T, D...>& A, const std::vector<int>& i, std::index_sequence<I...>) { return A(i[I]...); }
    template <size_t... I> static T& at_nc(Tensor<T, D...>& A, const std::vector<int>& i, std::index_sequence<I...>) { return A(i[I]...); }
    static void run(Ctx& c) {
        Tensor<T, D...> A; fill_unique(A.data(), A.size(), BASE); const Tensor<T, D...>& cA = A;
        std::vector<int> dims = { (int)D... };
        // every multi-index in the signed box [-d, d) per axis
        std::vector<int> idx(R), lo(R), pos(R);
        for (size_t n = 0; n < R; ++n) idx[n] = -dims[n];
        long count = 0;
        for (;;) {
            int off = 0; for (size_t n = 0; n < R; ++n) { pos[n] = idx[n] < 0 ? idx[n] + dims[n] : idx[n]; off = off * dims[n] + pos[n]; }
            std::vector<int> oi = idx; launder(oi.data());
            c.eq(at(cA, oi, std::make_index_sequence<R>()), A.data()[off], "constA(i...)", off, "wrong-element-selected:scalar-index");
            T& ref = at_nc(A, oi, std::make_index_sequence<R>());
            ++c.checks; if (&ref != A.data() + off) c.fail("wrong-element-selected:scalar-index", "A(i...) refers to offset " + std::to_string(&ref - A.data()) + " want " + std::to_string(off));
            ++count;
            int n = (int)R - 1; for (; n >= 0; --n) { if (++idx[n] < dims[n]) break; idx[n] = -dims[n]; }
            if (n < 0) break;
            if (count > 300000) break;
        }
        c.sub = count; c.nontrivial = true;
    }
};

// diag view (read)
template <class T, size_t N>
void diag_read(Ctx& c) {
    Tensor<T, N, N> A; fill_unique(A.data(), N * N, BASE);
    Tensor<T, N> d = diag(A); launder(d.data());
    for (size_t i = 0; i < N; ++i) c.eq(d.data()[i], A.data()[i * N + i], "diag(A)", (long)i, "wrong-element-selected:diag");
    Tensor<T, N> e = diag(A) * T(2) + T(1); launder(e.data());
    for (size_t i = 0; i < N; ++i) c.eq(e.data()[i], (T)(A.data()[i * N + i] * T(2) + T(1)), "diag(A)*2+1", (long)i, "wrong-element-selected:diag");
    c.nontrivial = true;
}
}} // namespace
#endif
