// C16 -- reductions, predicates and scalar-valued functions agree with their definitions
#ifndef VP_C16_H
#define VP_C16_H
#include "vp_la.h"
#include <set>

namespace vp { namespace c16 {
using namespace Fastor;

template <class T> inline bool is_element(const T* p, size_t n, T v) { for (size_t i = 0; i < n; ++i) if (same_val(p[i], v)) return true; return false; }

template <class T> inline void judge_sum(Ctx& c, const char* what, T got, const T* x, size_t n, bool exact) {
    if (std::is_integral<T>::value || exact) { T w = T(0); for (size_t i = 0; i < n; ++i) w = Arith<T>::add(w, x[i]); c.eqn(got, w, what, 0, "reduction-mismatch:sum"); }
    else { long double w = 0, m = 0; for (size_t i = 0; i < n; ++i) { w += x[i]; m += fabsl((long double)x[i]); } c.near(got, w, (long double)n * unit_roundoff<T>() * m + 0, what, 0, "reduction-bound:sum"); }
}
template <class T> inline void judge_minmax(Ctx& c, const char* what, T got, const T* x, size_t n, bool is_max) {
    T w = x[0]; for (size_t i = 1; i < n; ++i) w = is_max ? std::max(w, x[i]) : std::min(w, x[i]);
    ++c.compared;
    if (!num_eq(got, w)) { ++c.bad; if (c.mode.empty()) { c.mode = std::string("reduction-mismatch:") + (is_max ? "max" : "min"); c.first_bad = std::string(what) + " got " + vstr(got) + " want " + vstr(w) + " n=" + std::to_string(n) + " x0=" + vstr(x[0]); } return; }
    ++c.checks; if (!is_element(x, n, got) && !(got == T(0))) c.fail(std::string("not-an-element:") + (is_max ? "max" : "min"), std::string(what) + " returned " + vstr(got) + " which is not an element of the input");
}

// sign patterns: 0 all positive, 1 all negative, 2 mixed, 3 one extreme element at position `pos`, 4 all equal, 5 contains +-0
template <class T> inline void pattern(T* x, size_t n, int pat, size_t pos, Rng& g, bool realvals) {
    for (size_t i = 0; i < n; ++i) {
        T mag = realvals ? (T)g.real(0.5, 100) : (T)g.range(1, 1000);
        switch (pat) {
            case 0: x[i] = mag; break; case 1: x[i] = (T)(-mag); break; case 2: x[i] = (g.next() & 1) ? mag : (T)(-mag); break;
            case 3: x[i] = (g.next() & 1) ? mag : (T)(-mag); break; case 4: x[i] = (T)(-7); break; default: x[i] = (i % 3 == 0) ? T(0) : ((g.next() & 1) ? mag : (T)(-mag)); break;
        }
    }
    if (pat == 3) x[pos % n] = (pos / n) % 2 ? (T)5000 : (T)(-5000);
    if (pat == 5 && std::is_floating_point<T>::value && n > 1) x[1] = -T(0);
    launder(x);
}

template <class T, size_t... D>
struct RED {
    static void run(Ctx& c) {
        Rng g = c.rng();
        VP_OPERAND((Tensor<T, D...>), x); constexpr size_t N = Tensor<T, D...>::size(); T* p = x.data();
        long runs = 0;
        for (int pat = 0; pat < 6; ++pat) {
            size_t reps = pat == 3 ? 2 * N : 3;
            for (size_t r = 0; r < reps; ++r) {
                for (int realvals = 0; realvals < (std::is_floating_point<T>::value ? 2 : 1); ++realvals) {
                    pattern(p, N, pat, r, g, realvals != 0);
                    T v;
                    // argument kinds: tensor, lazy expressions (multiplying by 1 and double negation keep every element bit-identical)
                    VP_LIB(v = sum(x)); judge_sum(c, "sum(x)", v, p, N, !realvals);
                    VP_LIB(v = sum(x * T(1))); judge_sum(c, "sum(x*1)", v, p, N, !realvals);
                    VP_LIB(v = x.sum()); judge_sum(c, "x.sum()", v, p, N, !realvals);
                    VP_LIB(v = min(x)); judge_minmax(c, "min(x)", v, p, N, false);
                    VP_LIB(v = max(x)); judge_minmax(c, "max(x)", v, p, N, true);
                    VP_LIB(v = min(x * T(1))); judge_minmax(c, "min(x*1)", v, p, N, false);
                    VP_LIB(v = max(x * T(1))); judge_minmax(c, "max(x*1)", v, p, N, true);
                    VP_LIB(v = max(-(-x))); judge_minmax(c, "max(-(-x))", v, p, N, true);
                    VP_LIB(v = min(-(-x))); judge_minmax(c, "min(-(-x))", v, p, N, false);
                    norm_part(c, x, p, N, If<std::is_floating_point<T>::value>());
                    ++runs;
                }
            }
        }
        // product: factors +-1, +-2 (at most 20 twos): exact in every type
        for (int it = 0; it < 30; ++it) {
            int twos = 0; for (size_t i = 0; i < N; ++i) { long f = (g.next() % 4 == 0 && twos < 20) ? (++twos, 2) : 1; p[i] = (T)((g.next() & 1) ? f : -f); } launder(p);
            T w = T(1); for (size_t i = 0; i < N; ++i) w = Arith<T>::mul(w, p[i]);
            T v; VP_LIB(v = product(x)); c.eqn(v, w, "product(x)", 0, "reduction-mismatch:product");
            VP_LIB(v = product(x * T(1))); c.eqn(v, w, "product(x*1)", 0, "reduction-mismatch:product");
            VP_LIB(v = x.product()); c.eqn(v, w, "x.product()", 0, "reduction-mismatch:product");
            ++runs;
        }
        // inner(a,b)
        { Tensor<T, D...> y; for (int it = 0; it < 10; ++it) { fill_small(p, N, g, 9); fill_small(y.data(), N, g, 9); T w = T(0); for (size_t i = 0; i < N; ++i) w = Arith<T>::add(w, Arith<T>::mul(p[i], y.data()[i])); T v; VP_LIB(v = inner(x, y)); c.eqn(v, w, "inner(x,y)", 0, "reduction-mismatch:inner"); } }
        c.sub = runs; c.nontrivial = true;
    }
    template <bool B> struct If {};
    static void norm_part(Ctx& c, const Tensor<T, D...>& x, const T* p, size_t N, If<true>) {
        long double s = 0; for (size_t i = 0; i < N; ++i) s += (long double)p[i] * p[i]; long double w = sqrtl(s);
        T v; VP_LIB(v = norm(x)); c.near(v, w, ((long double)N / 2 + 2) * std::numeric_limits<T>::epsilon() * w, "norm(x)", 0, "reduction-bound:norm");
        VP_LIB(v = norm(x * T(1))); c.near(v, w, ((long double)N / 2 + 2) * std::numeric_limits<T>::epsilon() * w, "norm(x*1)", 0, "reduction-bound:norm");
    }
    static void norm_part(Ctx&, const Tensor<T, D...>&, const T*, size_t, If<false>) {}
};

// the same reductions when the argument is an expression that the library has to EVALUATE into a temporary first (a lazy transpose, a lazy matrix
// product, an element-wise node with such a child): these go through separate overloads of every reduction.  x (MxN) carries the pattern, Xt (NxM) its
// transpose and I the NxN identity, so trans(Xt), x % I and trans(Xt) - Z all denote exactly the elements of x.
template <class T, size_t M, size_t N>
struct RED2 {
    template <bool B> struct If {};
    static void run(Ctx& c) {
        Rng g = c.rng();
        VP_OPERAND((Tensor<T, M, N>), x); VP_OPERAND((Tensor<T, N, M>), Xt); Tensor<T, N, N> I; Tensor<T, M, N> Z; I.zeros(); Z.zeros(); for (size_t i = 0; i < N; ++i) I.data()[i * N + i] = T(1);
        T* p = x.data(); constexpr size_t SZ = M * N; long runs = 0;
        for (int pat = 0; pat < 6; ++pat) {
            size_t reps = pat == 3 ? 2 * SZ : 3;
            for (size_t r = 0; r < reps; ++r) {
                pattern(p, SZ, pat, r, g, false);
                for (size_t i = 0; i < M; ++i) for (size_t j = 0; j < N; ++j) Xt.data()[j * M + i] = p[i * N + j];
                launder(Xt.data());
                T v;
                VP_LIB(v = sum(trans(Xt))); judge_sum(c, "sum(trans(Xt))", v, p, SZ, true);
                VP_LIB(v = sum(x % I)); judge_sum(c, "sum(x%I)", v, p, SZ, true);
                VP_LIB(v = sum(trans(Xt) - Z)); judge_sum(c, "sum(trans(Xt)-Z)", v, p, SZ, true);
                VP_LIB(v = min(trans(Xt))); judge_minmax(c, "min(trans(Xt))", v, p, SZ, false);
                VP_LIB(v = max(trans(Xt))); judge_minmax(c, "max(trans(Xt))", v, p, SZ, true);
                VP_LIB(v = min(x % I)); judge_minmax(c, "min(x%I)", v, p, SZ, false);
                VP_LIB(v = max(x % I)); judge_minmax(c, "max(x%I)", v, p, SZ, true);
                VP_LIB(v = min(Z + x % I)); judge_minmax(c, "min(Z+x%I)", v, p, SZ, false);
                VP_LIB(v = max(trans(Xt) - Z)); judge_minmax(c, "max(trans(Xt)-Z)", v, p, SZ, true);
                norm_part(c, Xt, I, x, p, If<std::is_floating_point<T>::value>());
                { bool e; VP_LIB(e = isequal(trans(Xt), x)); c.check(e, "predicate-mismatch:isequal(trans(Xt),x)", "isequal(trans(Xt), x) is false for equal operands"); }
                square_part(c, Xt, I, x, p, If<(M == N)>());
                ++runs;
            }
        }
        for (int it = 0; it < 20; ++it) {
            int twos = 0; for (size_t i = 0; i < SZ; ++i) { long f = (g.next() % 4 == 0 && twos < 20) ? (++twos, 2) : 1; p[i] = (T)((g.next() & 1) ? f : -f); } launder(p);
            for (size_t i = 0; i < M; ++i) for (size_t j = 0; j < N; ++j) Xt.data()[j * M + i] = p[i * N + j];
            launder(Xt.data());
            T w = T(1); for (size_t i = 0; i < SZ; ++i) w = Arith<T>::mul(w, p[i]);
            T v; VP_LIB(v = product(trans(Xt))); c.eqn(v, w, "product(trans(Xt))", 0, "reduction-mismatch:product");
            VP_LIB(v = product(x % I)); c.eqn(v, w, "product(x%I)", 0, "reduction-mismatch:product");
        }
        c.sub = runs; c.nontrivial = true;
    }
    static void norm_part(Ctx& c, const Tensor<T, N, M>& Xt, const Tensor<T, N, N>& I, const Tensor<T, M, N>& x, const T* p, If<true>) {
        long double s = 0; for (size_t i = 0; i < M * N; ++i) s += (long double)p[i] * p[i]; long double w = sqrtl(s);
        T v; VP_LIB(v = norm(trans(Xt))); c.near(v, w, ((long double)(M * N) / 2 + 2) * std::numeric_limits<T>::epsilon() * w, "norm(trans(Xt))", 0, "reduction-bound:norm");
        VP_LIB(v = norm(x % I)); c.near(v, w, ((long double)(M * N) / 2 + 2) * std::numeric_limits<T>::epsilon() * w, "norm(x%I)", 0, "reduction-bound:norm");
    }
    static void norm_part(Ctx&, const Tensor<T, N, M>&, const Tensor<T, N, N>&, const Tensor<T, M, N>&, const T*, If<false>) {}
    static void square_part(Ctx& c, const Tensor<T, N, M>& Xt, const Tensor<T, N, N>& I, const Tensor<T, M, N>& x, const T* p, If<true>) {
        T w = T(0); for (size_t i = 0; i < N; ++i) w = Arith<T>::add(w, p[i * N + i]);
        T v; VP_LIB(v = trace(trans(Xt))); c.eqn(v, w, "trace(trans(Xt))", 0, "reduction-mismatch:trace");
        VP_LIB(v = trace(x % I)); c.eqn(v, w, "trace(x%I)", 0, "reduction-mismatch:trace");
    }
    static void square_part(Ctx&, const Tensor<T, N, M>&, const Tensor<T, N, N>&, const Tensor<T, M, N>&, const T*, If<false>) {}
};

// predicates: every boolean pattern for n <= 12 (exhaustive), random for larger n; Tensor<bool> and boolean expressions
template <class T, size_t N>
void predicates(Ctx& c) {
    Rng g = c.rng();
    VP_OPERAND((Tensor<bool, N>), b); VP_OPERAND((Tensor<T, N>), x); std::set<std::string> failed;
    const bool ex = N <= 12; const size_t total = ex ? (size_t(1) << N) : 4000;
    for (size_t mi = 0; mi < total; ++mi) {
        bool any = false, all = true;
        for (size_t i = 0; i < N; ++i) { bool v = ex ? ((mi >> i) & 1) : ((mi % 7 == 0) ? false : (mi % 7 == 1 ? true : (g.next() % 16 == 0) == (mi % 2 == 0))); b.data()[i] = v; x.data()[i] = v ? (T)(1 + (long)(g.next() % 5)) : (T)(-(long)(g.next() % 5)); any |= v; all &= v; }
        launder(b.data()); launder(x.data());
    // the failure mode names EVERY predicate that disagreed at least once (sorted), so that a known defect in one
    // predicate can never mask a new defect in another
#define VP_P(expr, want, name) do { bool r = (expr); ++c.compared; if (r != (want)) { ++c.bad; if (!failed.count(name)) { failed.insert(name); if (c.first_bad.size() < 600) c.first_bad += std::string(name) + " returned " + (r ? "true" : "false") + " for pattern " + std::to_string(mi) + " (any=" + (any ? "1" : "0") + " all=" + (all ? "1" : "0") + "); "; } } } while (0)
#define VP_P_END() do { if (!failed.empty()) { c.mode = "predicate-mismatch:"; bool f1 = true; for (auto& n : failed) { if (!f1) c.mode += ","; f1 = false; c.mode += n; } } } while (0)
        VP_P(all_of(b), all, "all_of(b)"); VP_P(any_of(b), any, "any_of(b)"); VP_P(none_of(b), !any, "none_of(b)");
        VP_P(all_of(x > T(0)), all, "all_of(x>0)"); VP_P(any_of(x > T(0)), any, "any_of(x>0)"); VP_P(none_of(x > T(0)), !any, "none_of(x>0)");
        VP_P(none_of(b) == !any_of(b), true, "none_of==!any_of");
        ++c.sub;
    }
    VP_P_END();
    c.notes[ex ? "all-patterns-enumerated" : "random-patterns"] += (long)total; c.nontrivial = true;
}

// isequal / issymmetric / isorthogonal on constructed positive and negative instances with wide margins
template <class T, size_t N>
void matrix_predicates(Ctx& c) {
    Rng g = c.rng();
    const bool any = false, all = false; std::set<std::string> failed;
    for (int mi = 0; mi < 40; ++mi) {
        Tensor<T, N, N> A, B, S; fill_small(A.data(), N * N, g, 9);
        B = A; launder(B.data());
        VP_P(isequal(A, B), true, "isequal(A,A)");
        VP_P(isequal(A + T(0), B), true, "isequal(expr,A)");
        size_t k = g.next() % (N * N); B.data()[k] += T(1); launder(B.data());
        VP_P(isequal(A, B), false, "isequal(A,A+e_k)");
        for (size_t i = 0; i < N; ++i) for (size_t j = 0; j < N; ++j) S.data()[i * N + j] = (T)(A.data()[i * N + j] + A.data()[j * N + i]);
        launder(S.data());
        VP_P(issymmetric(S), true, "issymmetric(S)");
        VP_P(issymmetric(S + T(0)), true, "issymmetric(expr)");
        if (N > 1) { size_t i = g.next() % N, j = (i + 1 + g.next() % (N - 1)) % N; S.data()[i * N + j] += T(1); launder(S.data()); VP_P(issymmetric(S), false, "issymmetric(S+e_ij)"); }
        // orthogonal: signed permutation matrices are exactly orthogonal in every type
        Tensor<T, N, N> P; std::vector<size_t> perm; la::random_perm(perm, N, g);
        for (size_t i = 0; i < N * N; ++i) P.data()[i] = T(0); for (size_t i = 0; i < N; ++i) P.data()[i * N + perm[i]] = (g.next() & 1) ? T(1) : T(-1);
        launder(P.data());
        VP_P(isorthogonal(P), true, "isorthogonal(signed permutation)");
        P.data()[(g.next() % N) * N + perm[0]] += T(1); launder(P.data());
        VP_P(isorthogonal(P), false, "isorthogonal(P+e)");
    }
    VP_P_END();
#undef VP_P
#undef VP_P_END
    c.nontrivial = true;
}

// trace of square matrices (tensor and expression)
template <class T, size_t N>
void trace_case(Ctx& c) {
    Rng g = c.rng(); Tensor<T, N, N> A;
    for (int it = 0; it < 20; ++it) { fill_small(A.data(), N * N, g, 99); T w = T(0); for (size_t i = 0; i < N; ++i) w = Arith<T>::add(w, A.data()[i * N + i]);
        T v; VP_LIB(v = trace(A)); c.eqn(v, w, "trace(A)", 0, "reduction-mismatch:trace"); VP_LIB(v = trace(A * T(1))); c.eqn(v, w, "trace(A*1)", 0, "reduction-mismatch:trace"); }
    c.nontrivial = true;
}

// determinant: integer-valued matrices against exact Bareiss (closed forms n<=4 exactly), dominant families against the
// long-double value within 16 n^2 u kappa |det| for the factorisation based strategies
template <DetCompType DT> struct DetName; template <> struct DetName<DetCompType::Simple> { static const char* n() { return "Simple"; } };
template <> struct DetName<DetCompType::LU> { static const char* n() { return "LU"; } }; template <> struct DetName<DetCompType::QR> { static const char* n() { return "QR"; } };
template <class T, size_t N, DetCompType DT>
void det_case(Ctx& c) {
    Rng g = c.rng(); Tensor<T, N, N> A;
    const bool closed = (DT == DetCompType::Simple && N <= 4);
    for (int it = 0; it < 30; ++it) {
        std::vector<long> Ai(N * N);
        if (closed) { for (size_t i = 0; i < N * N; ++i) { Ai[i] = g.range(-3, 3); A.data()[i] = (T)Ai[i]; } launder(A.data()); }
        else { la::fill_dominant(A.data(), N, g, it % 2 == 0); for (size_t i = 0; i < N * N; ++i) Ai[i] = (long)A.data()[i]; }
        T v; VP_LIB(v = determinant<DT>(A));
        if (closed) { T w = (T)(long)la::det_exact(Ai, N); c.eqn(v, w, "determinant<Simple>(closed form)", 0, "determinant-mismatch"); T v2; VP_LIB(v2 = determinant<DT>(A * T(1))); c.eqn(v2, w, "determinant(expr)", 0, "determinant-mismatch"); }
        else {
            la::Mat M = la::to_ld(A.data(), N * N); la::LD w = (it % 2 == 0) ? (la::LD)la::det_exact(Ai, N) : la::det(M, N); la::LD kap = la::cond_inf(M, N);
            la::LD bound = 16.0L * N * N * unit_roundoff<T>() * kap * fabsl(w);
            // diagnose the failure mode: right magnitude, wrong sign
            if (fabsl((la::LD)v + w) <= bound && fabsl((la::LD)v - w) > bound) { ++c.compared; c.fail("determinant-sign-flipped", std::string("determinant<") + DetName<DT>::n() + "> returned " + vstr(v) + " for a matrix whose determinant is " + std::to_string((double)w)); }
            else c.near(v, w, bound, (std::string("determinant<") + DetName<DT>::n() + ">").c_str(), 0, "determinant-bound");
        }
    }
    c.nontrivial = true;
}
}} // namespace
#endif
