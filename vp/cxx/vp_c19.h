// C19 -- index-tensor and boolean-mask views select and update exactly the indexed items
#ifndef VP_C19_H
#define VP_C19_H
#include "vp_views.h"
#include "vp_c04.h"
#include "vp_c05.h"

namespace vp { namespace c19 {
using namespace Fastor; using namespace vp::vw;
using c05::apply; using c05::OPN; using c05::fill_parent; using c05::cmp_parent; using c05::pick_scalar; using c04::BASE;

// ---------------------------------------------------------------- flat index tensor on a 1-D parent: every index vector of length K (reads), duplicate-free (writes)
template <class T, size_t N, size_t K, class Int>
void flat1d(Ctx& c) {
    Rng g = c.rng();
    Framed<Tensor<T, N>> FA; Tensor<T, N>& A = *FA; const Tensor<T, N>& cA = A;
    T a0[N], model[N]; Tensor<T, K> Rt;
    fill_unique(a0, N, BASE); fill_parent(Rt.data(), K, g);
    Tensor<Int, K> it;
    size_t total = 1; for (size_t k = 0; k < K; ++k) total *= N;
    const size_t stride = total > 30000 ? total / 30000 + 1 : 1;
    long reads = 0, writes = 0;
    for (size_t code = c.seed % stride; code < total; code += stride) {
        size_t x = code; bool dup = false; size_t seen = 0;
        for (size_t k = 0; k < K; ++k) { size_t v = x % N; x /= N; it.data()[K - 1 - k] = (Int)v; if (seen & (1ull << v)) dup = true; seen |= 1ull << v; }
        launder(it.data());
        std::vector<int> offs(K); for (size_t k = 0; k < K; ++k) offs[k] = (int)it.data()[k];
        std::memcpy(A.data(), a0, sizeof a0); launder(A.data());
        { Tensor<T, K> r = A(it); launder(r.data()); cmp_pick(c, r.data(), a0, offs, "r=A(it)", "", BASE); }
        { Tensor<T, K> r = cA(it); launder(r.data()); cmp_pick(c, r.data(), a0, offs, "r=constA(it)", "", BASE); }
        if (reads % 7 == 0) { c04::routes<T, Tensor<T, K>, false>(c, [&]() { return A(it); }, a0, offs, "A(it)"); c04::routes<T, Tensor<T, K>, false>(c, [&]() { return cA(it); }, a0, offs, "constA(it)"); }
        { Tensor<T, K> r = A(it) * T(2) + T(1); launder(r.data()); for (size_t k = 0; k < K; ++k) c.eq(r.data()[k], (T)(a0[offs[k]] * T(2) + T(1)), "A(it)*2+1", (long)k, "wrong-element-selected"); }
        ++reads;
        if (dup) continue;
        int op = (int)(writes % 5), kind = (int)((writes / 5) % 4); ++writes;
        std::memcpy(model, a0, sizeof a0);
        T s = opaque(pick_scalar<T>(g, op));
        if (kind == 3) {   // a right-hand side that needs evaluation first (lazy matrix-vector product) has its own overload of every operator
            Tensor<T, K, 2> P; Tensor<T, 2> q; fill_small(P.data(), K * 2, g, 4); fill_small_nz(q.data(), 2, g, 4); T prod[K]; bool z = false;
            for (size_t k = 0; k < K; ++k) { prod[k] = P.data()[k * 2] * q.data()[0] + P.data()[k * 2 + 1] * q.data()[1]; if (prod[k] == T(0)) z = true; }
            if (op == 4 && z) op = 1;
            for (size_t k = 0; k < K; ++k) model[offs[k]] = apply(op, a0[offs[k]], prod[k]);
            switch (op) { case 0: A(it) = P % q; break; case 1: A(it) += P % q; break; case 2: A(it) -= P % q; break; case 3: A(it) *= P % q; break; default: A(it) /= P % q; }
            launder(A.data());
            cmp_parent(c, A.data(), model, N, offs, std::string("A(it)") + OPN[op] + "P%q", true);
            continue;
        }
        switch (kind) {
        case 0: for (size_t k = 0; k < K; ++k) model[offs[k]] = apply(op, a0[offs[k]], s);
            switch (op) { case 0: A(it) = s; break; case 1: A(it) += s; break; case 2: A(it) -= s; break; case 3: A(it) *= s; break; default: A(it) /= s; } break;
        case 1: for (size_t k = 0; k < K; ++k) model[offs[k]] = apply(op, a0[offs[k]], Rt.data()[k]);
            switch (op) { case 0: A(it) = Rt; break; case 1: A(it) += Rt; break; case 2: A(it) -= Rt; break; case 3: A(it) *= Rt; break; default: A(it) /= Rt; } break;
        default: for (size_t k = 0; k < K; ++k) model[offs[k]] = apply(op, a0[offs[k]], (T)(Rt.data()[k] * T(2) + T(1)));
            switch (op) { case 0: A(it) = Rt * T(2) + T(1); break; case 1: A(it) += Rt * T(2) + T(1); break; case 2: A(it) -= Rt * T(2) + T(1); break; case 3: A(it) *= Rt * T(2) + T(1); break; default: A(it) /= Rt * T(2) + T(1); } break;
        }
        launder(A.data());
        cmp_parent(c, A.data(), model, N, offs, std::string("A(it)") + OPN[op] + "kind" + std::to_string(kind));
    }
    FA.verify(c, "parent frame");
    c.sub = reads + writes; c.notes["reads"] += reads; c.notes["duplicate-free-writes"] += writes;
    c.nontrivial = true;
}

// ---------------------------------------------------------------- one index tensor per axis on a rank-2 parent: every pair (row list of length P, column list of length Q)
template <class T, size_t M, size_t N, size_t P, size_t Q, class Int>
void axes2d(Ctx& c) {
    Rng g = c.rng();
    Framed<Tensor<T, M, N>> FA; Tensor<T, M, N>& A = *FA; const Tensor<T, M, N>& cA = A;
    T a0[M * N], model[M * N]; Tensor<T, P, Q> Rt; fill_unique(a0, M * N, BASE); fill_parent(Rt.data(), P * Q, g);
    Tensor<Int, P> ir; Tensor<Int, Q> ic;
    size_t tr = 1, tc = 1; for (size_t k = 0; k < P; ++k) tr *= M; for (size_t k = 0; k < Q; ++k) tc *= N;
    long writes = 0;
    for (size_t cr = 0; cr < tr; ++cr) for (size_t cc = 0; cc < tc; ++cc) {
        size_t x = cr; bool dup = false; size_t seen = 0;
        for (size_t k = 0; k < P; ++k) { size_t v = x % M; x /= M; ir.data()[P - 1 - k] = (Int)v; if (seen & (1ull << v)) dup = true; seen |= 1ull << v; }
        x = cc; seen = 0;
        for (size_t k = 0; k < Q; ++k) { size_t v = x % N; x /= N; ic.data()[Q - 1 - k] = (Int)v; if (seen & (1ull << v)) dup = true; seen |= 1ull << v; }
        launder(ir.data()); launder(ic.data());
        std::vector<int> offs; for (size_t i = 0; i < P; ++i) for (size_t j = 0; j < Q; ++j) offs.push_back((int)(ir.data()[i] * N + ic.data()[j]));
        std::memcpy(A.data(), a0, sizeof a0); launder(A.data());
        { Tensor<T, P, Q> r = A(ir, ic); launder(r.data()); cmp_pick(c, r.data(), a0, offs, "r=A(it0,it1)", "", BASE); }
        { Tensor<T, P, Q> r = cA(ir, ic); launder(r.data()); cmp_pick(c, r.data(), a0, offs, "r=constA(it0,it1)", "", BASE); }
        if (c.sub % 11 == 0) { c04::routes<T, Tensor<T, P, Q>, false>(c, [&]() { return A(ir, ic); }, a0, offs, "A(it0,it1)"); c04::routes<T, Tensor<T, P, Q>, false>(c, [&]() { return cA(ir, ic); }, a0, offs, "constA(it0,it1)"); }
        { Tensor<T, P, Q> r = A(ir, ic) - Rt; launder(r.data()); for (size_t k = 0; k < P * Q; ++k) c.eq(r.data()[k], (T)(a0[offs[k]] - Rt.data()[k]), "A(it0,it1)-R", (long)k, "wrong-element-selected"); }
        ++c.sub;
        if (dup) continue;
        int op = (int)(writes % 5), kind = (int)((writes / 5) % 2); ++writes;     // (a right-hand side that needs evaluation has no overload for the two-index-tensor view: not demanded)
        std::memcpy(model, a0, sizeof a0); T s = opaque(pick_scalar<T>(g, op));
        if (kind == 0) { for (size_t k = 0; k < offs.size(); ++k) model[offs[k]] = apply(op, a0[offs[k]], s);
            switch (op) { case 0: A(ir, ic) = s; break; case 1: A(ir, ic) += s; break; case 2: A(ir, ic) -= s; break; case 3: A(ir, ic) *= s; break; default: A(ir, ic) /= s; } }
        else { for (size_t k = 0; k < offs.size(); ++k) model[offs[k]] = apply(op, a0[offs[k]], Rt.data()[k]);
            switch (op) { case 0: A(ir, ic) = Rt; break; case 1: A(ir, ic) += Rt; break; case 2: A(ir, ic) -= Rt; break; case 3: A(ir, ic) *= Rt; break; default: A(ir, ic) /= Rt; } }
        launder(A.data());
        cmp_parent(c, A.data(), model, M * N, offs, std::string("A(it0,it1)") + OPN[op]);
    }
    FA.verify(c, "parent frame"); c.notes["duplicate-free-writes"] += writes; c.nontrivial = true;
}

// ---------------------------------------------------------------- index tensor mixed with an integer or a compile-time range
template <class T, size_t M, size_t N, size_t P, class Int, int F, int L, int S>
void mixed2d(Ctx& c) {
    Rng g = c.rng();
    Framed<Tensor<T, M, N>> FA; Tensor<T, M, N>& A = *FA; const Tensor<T, M, N>& cA = A; T a0[M * N], model[M * N]; fill_unique(a0, M * N, BASE);
    R1 rc = c04::norm_fixed(F, L, S, (int)N), rr = c04::norm_fixed(F, L, S, (int)M);
    for (int it = 0; it < 600; ++it) {
        Tensor<Int, P> ir, ic; bool okr = P <= M, okc = P <= N;
        { std::vector<int> p(M); for (size_t i = 0; i < M; ++i) p[i] = (int)i; for (size_t i = M - 1; i > 0; --i) std::swap(p[i], p[g.next() % (i + 1)]); for (size_t k = 0; k < P; ++k) ir.data()[k] = (Int)p[k % M]; }
        { std::vector<int> p(N); for (size_t i = 0; i < N; ++i) p[i] = (int)i; for (size_t i = N - 1; i > 0; --i) std::swap(p[i], p[g.next() % (i + 1)]); for (size_t k = 0; k < P; ++k) ic.data()[k] = (Int)p[k % N]; }
        launder(ir.data()); launder(ic.data());
        int num_c = (int)(g.next() % N), num_r = (int)(g.next() % M);
        std::vector<int> offs;
        std::memcpy(A.data(), a0, sizeof a0); launder(A.data());
        // A(it, int)
        offs.clear(); for (size_t k = 0; k < P; ++k) offs.push_back((int)(ir.data()[k] * N + num_c));
        { Tensor<T, P, 1> r = A(ir, opaque(num_c)); launder(r.data()); cmp_pick(c, r.data(), a0, offs, "r=A(it,int)", "", BASE); }
        { Tensor<T, P, 1> r = cA(ir, opaque(num_c)); launder(r.data()); cmp_pick(c, r.data(), a0, offs, "r=constA(it,int)", "", BASE); }
        if (it % 9 == 0) { c04::routes<T, Tensor<T, P, 1>, false>(c, [&]() { return A(ir, num_c); }, a0, offs, "A(it,int)"); c04::routes<T, Tensor<T, P, 1>, false>(c, [&]() { return cA(ir, num_c); }, a0, offs, "constA(it,int)"); }
        if (okr) { std::memcpy(model, a0, sizeof a0); for (int o : offs) model[o] = a0[o] + T(3); A(ir, num_c) += T(3); launder(A.data()); cmp_parent(c, A.data(), model, M * N, offs, "A(it,int)+=3"); std::memcpy(A.data(), a0, sizeof a0); }
        // A(int, it)
        offs.clear(); for (size_t k = 0; k < P; ++k) offs.push_back((int)(num_r * N + ic.data()[k]));
        { Tensor<T, P, 1> r = A(opaque(num_r), ic); launder(r.data()); cmp_pick(c, r.data(), a0, offs, "r=A(int,it)", "", BASE); }
        { Tensor<T, P, 1> r = cA(opaque(num_r), ic); launder(r.data()); cmp_pick(c, r.data(), a0, offs, "r=constA(int,it)", "", BASE); }
        if (it % 9 == 1) { c04::routes<T, Tensor<T, P, 1>, false>(c, [&]() { return A(num_r, ic); }, a0, offs, "A(int,it)"); c04::routes<T, Tensor<T, P, 1>, false>(c, [&]() { return cA(num_r, ic); }, a0, offs, "constA(int,it)"); }
        if (okc) { std::memcpy(model, a0, sizeof a0); for (int o : offs) model[o] = a0[o] * T(2); A(num_r, ic) *= T(2); launder(A.data()); cmp_parent(c, A.data(), model, M * N, offs, "A(int,it)*=2"); std::memcpy(A.data(), a0, sizeof a0); }
        // A(it, fseq)
        offs.clear(); for (size_t k = 0; k < P; ++k) for (int j = 0; j < rc.m; ++j) offs.push_back((int)(ir.data()[k] * N + rc.f + j * rc.s));
        { Tensor<T, P, c04::cext(F, L, S, (int)N)> r = A(ir, fseq<F, L, S>()); launder(r.data()); cmp_pick(c, r.data(), a0, offs, "r=A(it,fseq)", show(rc), BASE); }
        { Tensor<T, P, c04::cext(F, L, S, (int)N)> r = cA(ir, fseq<F, L, S>()); launder(r.data()); cmp_pick(c, r.data(), a0, offs, "r=constA(it,fseq)", show(rc), BASE); }
        if (it % 9 == 2) { c04::routes<T, Tensor<T, P, c04::cext(F, L, S, (int)N)>, false>(c, [&]() { return A(ir, fseq<F, L, S>()); }, a0, offs, "A(it,fseq)"); c04::routes<T, Tensor<T, P, c04::cext(F, L, S, (int)N)>, false>(c, [&]() { return cA(ir, fseq<F, L, S>()); }, a0, offs, "constA(it,fseq)"); }
        if (okr) { std::memcpy(model, a0, sizeof a0); for (int o : offs) model[o] = a0[o] - T(5); A(ir, fseq<F, L, S>()) -= T(5); launder(A.data()); cmp_parent(c, A.data(), model, M * N, offs, "A(it,fseq)-=5"); std::memcpy(A.data(), a0, sizeof a0); }
        // A(fseq, it)
        offs.clear(); for (int i = 0; i < rr.m; ++i) for (size_t k = 0; k < P; ++k) offs.push_back((int)((rr.f + i * rr.s) * N + ic.data()[k]));
        { Tensor<T, c04::cext(F, L, S, (int)M), P> r = A(fseq<F, L, S>(), ic); launder(r.data()); cmp_pick(c, r.data(), a0, offs, "r=A(fseq,it)", show(rr), BASE); }
        { Tensor<T, c04::cext(F, L, S, (int)M), P> r = cA(fseq<F, L, S>(), ic); launder(r.data()); cmp_pick(c, r.data(), a0, offs, "r=constA(fseq,it)", show(rr), BASE); }
        if (it % 9 == 3) { c04::routes<T, Tensor<T, c04::cext(F, L, S, (int)M), P>, false>(c, [&]() { return A(fseq<F, L, S>(), ic); }, a0, offs, "A(fseq,it)"); c04::routes<T, Tensor<T, c04::cext(F, L, S, (int)M), P>, false>(c, [&]() { return cA(fseq<F, L, S>(), ic); }, a0, offs, "constA(fseq,it)"); }
        if (okc) { std::memcpy(model, a0, sizeof a0); for (int o : offs) model[o] = T(7); A(fseq<F, L, S>(), ic) = T(7); launder(A.data()); cmp_parent(c, A.data(), model, M * N, offs, "A(fseq,it)=7"); std::memcpy(A.data(), a0, sizeof a0); }
        ++c.sub;
    }
    FA.verify(c, "parent frame"); c.nontrivial = true;
}

// ---------------------------------------------------------------- flat-index tensor with a shape on an n-D parent; random longer index tensors
template <class T, class PD, class ID, class Int> struct FLATND;
template <class T, size_t... D, size_t... I, class Int>
struct FLATND<T, Index<D...>, Index<I...>, Int> {
    static void run(Ctx& c) {
        Rng g = c.rng();
        Framed<Tensor<T, D...>> FA; Tensor<T, D...>& A = *FA; const Tensor<T, D...>& cA = A; constexpr size_t SZ = Tensor<T, D...>::size(); constexpr size_t K = Tensor<Int, I...>::size();
        T a0[SZ], model[SZ]; fill_unique(a0, SZ, BASE); Tensor<T, I...> Rt; fill_parent(Rt.data(), K, g);
        for (int it = 0; it < 1500; ++it) {
            Tensor<Int, I...> idx; bool unique = it % 2 == 0 && K <= SZ;
            if (unique) { std::vector<int> p(SZ); for (size_t i = 0; i < SZ; ++i) p[i] = (int)i; for (size_t i = SZ - 1; i > 0; --i) std::swap(p[i], p[g.next() % (i + 1)]); for (size_t k = 0; k < K; ++k) idx.data()[k] = (Int)p[k]; }
            else for (size_t k = 0; k < K; ++k) idx.data()[k] = (Int)(g.next() % SZ);
            launder(idx.data());
            std::vector<int> offs(K); for (size_t k = 0; k < K; ++k) offs[k] = (int)idx.data()[k];
            std::memcpy(A.data(), a0, sizeof a0); launder(A.data());
            { Tensor<T, I...> r = A(idx); launder(r.data()); cmp_pick(c, r.data(), a0, offs, "r=A(flat-index-tensor)", "", BASE); }
            { Tensor<T, I...> r = cA(idx); launder(r.data()); cmp_pick(c, r.data(), a0, offs, "r=constA(flat-index-tensor)", "", BASE); }
            if (it % 13 == 0) { c04::routes<T, Tensor<T, I...>, false>(c, [&]() { return A(idx); }, a0, offs, "A(flat-index-tensor)"); c04::routes<T, Tensor<T, I...>, false>(c, [&]() { return cA(idx); }, a0, offs, "constA(flat-index-tensor)"); }
            { Tensor<T, I...> r = A(idx) + Rt; launder(r.data()); for (size_t k = 0; k < K; ++k) c.eq(r.data()[k], (T)(a0[offs[k]] + Rt.data()[k]), "A(idx)+R", (long)k, "wrong-element-selected"); }
            if (unique) {
                int op = it % 5; std::memcpy(model, a0, sizeof a0);
                for (size_t k = 0; k < K; ++k) model[offs[k]] = apply(op, a0[offs[k]], Rt.data()[k]);
                switch (op) { case 0: A(idx) = Rt; break; case 1: A(idx) += Rt; break; case 2: A(idx) -= Rt; break; case 3: A(idx) *= Rt; break; default: A(idx) /= Rt; }
                launder(A.data()); cmp_parent(c, A.data(), model, SZ, offs, std::string("A(flat-index-tensor)") + OPN[op] + "R");
            }
            ++c.sub;
        }
        FA.verify(c, "parent frame"); c.nontrivial = true;
    }
};

// ---------------------------------------------------------------- boolean masks: ALL 2^(size) masks when size <= 12, random otherwise
template <class T, size_t... D>
struct MASK {
    static void run(Ctx& c) {
        Rng g = c.rng();
        Framed<Tensor<T, D...>> FA; Tensor<T, D...>& A = *FA; constexpr size_t SZ = Tensor<T, D...>::size();
        T a0[SZ], model[SZ]; fill_parent(a0, SZ, g); Tensor<T, D...> Rt; fill_parent(Rt.data(), SZ, g);
        const bool exhaustive = SZ <= 12;
        const size_t total = exhaustive ? (size_t(1) << SZ) : 3000;
        for (size_t mi = 0; mi < total; ++mi) {
            Tensor<bool, D...> mk;
            for (size_t i = 0; i < SZ; ++i) mk.data()[i] = exhaustive ? ((mi >> i) & 1) : ((g.next() % 4) < (1 + mi % 3));
            launder(mk.data());
            std::vector<int> offs; for (size_t i = 0; i < SZ; ++i) if (mk.data()[i]) offs.push_back((int)i);
            for (int rep = 0; rep < (exhaustive ? 3 : 1); ++rep) {
                int op = (int)((mi + rep * 2) % 5), kind = (int)((mi / 5 + rep) % 3);
                std::memcpy(A.data(), a0, sizeof a0); std::memcpy(model, a0, sizeof a0); launder(A.data());
                T s = opaque(pick_scalar<T>(g, op));
                switch (kind) {
                case 0: for (int o : offs) model[o] = apply(op, a0[o], s);
                    switch (op) { case 0: A(mk) = s; break; case 1: A(mk) += s; break; case 2: A(mk) -= s; break; case 3: A(mk) *= s; break; default: A(mk) /= s; } break;
                case 1: for (int o : offs) model[o] = apply(op, a0[o], Rt.data()[o]);
                    switch (op) { case 0: A(mk) = Rt; break; case 1: A(mk) += Rt; break; case 2: A(mk) -= Rt; break; case 3: A(mk) *= Rt; break; default: A(mk) /= Rt; } break;
                default: for (int o : offs) model[o] = apply(op, a0[o], (T)(Rt.data()[o] * T(2) + T(1)));
                    switch (op) { case 0: A(mk) = Rt * T(2) + T(1); break; case 1: A(mk) += Rt * T(2) + T(1); break; case 2: A(mk) -= Rt * T(2) + T(1); break; case 3: A(mk) *= Rt * T(2) + T(1); break; default: A(mk) /= Rt * T(2) + T(1); } break;
                }
                launder(A.data());
                cmp_parent(c, A.data(), model, SZ, offs, std::string("A(mask)") + OPN[op] + "kind" + std::to_string(kind));
                ++c.sub;
            }
        }
        FA.verify(c, "parent frame"); c.notes[exhaustive ? "all-masks-enumerated" : "random-masks"] += (long)total; c.nontrivial = true;
    }
};
}} // namespace
#endif
