// C14 -- permute / permutation / transpose move every element to its permuted position
#ifndef VP_C14_H
#define VP_C14_H
#include "vp.h"

namespace vp { namespace c14 {
using namespace Fastor;

template <class Idx> struct IdxVals;
template <size_t... P> struct IdxVals<Index<P...>> { static std::vector<size_t> get() { return { P... }; } };
template <class TT> struct TensVals;
template <class T, size_t... D> struct TensVals<Tensor<T, D...>> { using scalar = T; static std::vector<size_t> dims() { return { D... }; } static constexpr size_t size = Tensor<T, D...>::size(); };

inline size_t flat(const std::vector<size_t>& dims, const std::vector<size_t>& idx) { size_t o = 0; for (size_t n = 0; n < dims.size(); ++n) o = o * dims[n] + idx[n]; return o; }
inline bool next(const std::vector<size_t>& dims, std::vector<size_t>& idx) {
    for (int n = (int)dims.size() - 1; n >= 0; --n) { if (++idx[n] < dims[n]) return true; idx[n] = 0; }
    return false;
}
// reference: out has extents d[p[n]]; out(i[p0],...,i[pk]) = A(i0,...,ik)
template <class T> inline void ref_permute(const T* a, const std::vector<size_t>& d, const std::vector<size_t>& p, std::vector<T>& out, std::vector<size_t>& od) {
    size_t r = d.size(); od.resize(r); for (size_t n = 0; n < r; ++n) od[n] = d[p[n]];
    size_t total = 1; for (auto x : d) total *= x; out.assign(total, T());
    std::vector<size_t> i(r, 0), j(r);
    do { for (size_t n = 0; n < r; ++n) j[n] = i[p[n]]; out[flat(od, j)] = a[flat(d, i)]; } while (next(d, i));
}
inline std::vector<size_t> inverse(const std::vector<size_t>& p) { std::vector<size_t> q(p.size()); for (size_t n = 0; n < p.size(); ++n) q[p[n]] = n; return q; }

template <class R> inline std::vector<size_t> dims_of(const R& r) { std::vector<size_t> d(R::Dimension); for (size_t n = 0; n < R::Dimension; ++n) d[n] = r.dimension(n); return d; }

template <class T> inline void cmp_moved(Ctx& c, const T* got, const std::vector<T>& want, const char* what, long base) {
    for (size_t i = 0; i < want.size(); ++i) {
        ++c.compared;
        if (same_val(got[i], want[i])) continue;
        ++c.bad;
        if (c.mode.empty()) { c.mode = "misplaced-element"; c.first_bad = std::string(what) + "[" + std::to_string(i) + "] got " + vstr(got[i]) + " (source flat index " + std::to_string((long)std::real(got[i]) - base) + ") want " + vstr(want[i]); }
    }
    c.digest_add(got, want.size());
}
template <class T> inline long base_of() { return 100; }

// permute<Idx>(A) on a tensor and on an unevaluated expression; composition with the inverse permutation
template <class Idx, class InvIdx, class TT>
void permute_case(Ctx& c) {
    using T = typename TensVals<TT>::scalar;
    constexpr size_t SZ = TensVals<TT>::size;
    VP_OPERAND((TT), A); fill_unique(A.data(), SZ, 100);
    std::vector<size_t> d = TensVals<TT>::dims(), p = IdxVals<Idx>::get(), od; std::vector<T> want;
    ref_permute(A.data(), d, p, want, od);
    { scrub_stack(); auto out = permute<Idx>(A); launder(out.data());
      c.check(dims_of(out) == od, "extents-mismatch", "permute<Idx>(A) extents differ from shape[p[n]]");
      c.check(out.size() == SZ, "size-mismatch"); cmp_moved(c, out.data(), want, "permute(A)", 100);
      auto back = permute<InvIdx>(out); launder(back.data());
      c.check(dims_of(back) == d, "extents-mismatch", "inverse composition extents");
      std::vector<T> orig(A.data(), A.data() + SZ); cmp_moved(c, back.data(), orig, "permute<inv>(permute(A))", 100); }
    { scrub_stack(); auto out = permute<Idx>(A + T(0)); launder(out.data());      // unevaluated expression argument
      c.check(dims_of(out) == od, "extents-mismatch", "permute<Idx>(expr) extents"); cmp_moved(c, out.data(), want, "permute(expr)", 100);
      auto back = permute<InvIdx>(permute<Idx>(A * T(1))); launder(back.data());
      std::vector<T> orig(A.data(), A.data() + SZ); cmp_moved(c, back.data(), orig, "permute<inv>(permute(expr))", 100); }
    c.nontrivial = (p != inverse(p)) || true;
    c.notes[p == inverse(p) ? "involution" : "non-involution"] = 1;
}

// legacy permutation<>: by p or by p^-1, the same choice for extents and for elements; choice reported in notes
template <class Idx, class TT>
void permutation_case(Ctx& c) {
    using T = typename TensVals<TT>::scalar;
    constexpr size_t SZ = TensVals<TT>::size;
    VP_OPERAND((TT), A); fill_unique(A.data(), SZ, 100);
    std::vector<size_t> d = TensVals<TT>::dims(), p = IdxVals<Idx>::get(), q = inverse(p), od_p, od_q; std::vector<T> want_p, want_q;
    ref_permute(A.data(), d, p, want_p, od_p); ref_permute(A.data(), d, q, want_q, od_q);
    for (int form = 0; form < 2; ++form) {
        scrub_stack();
        auto out = form == 0 ? permutation<Idx>(A) : permutation<Idx>(A + T(0)); launder(out.data());
        std::vector<size_t> od = dims_of(out);
        bool ext_p = od == od_p, ext_q = od == od_q;
        bool el_p = true, el_q = true;
        for (size_t i = 0; i < SZ; ++i) { if (!same_val(out.data()[i], want_p[i])) el_p = false; if (!same_val(out.data()[i], want_q[i])) el_q = false; }
        c.compared += (long)SZ; c.digest_add(out.data(), SZ);
        bool by_p = ext_p && el_p, by_q = ext_q && el_q;
        ++c.checks;
        if (!by_p && !by_q) {
            std::string why = std::string("extents match p:") + (ext_p ? "y" : "n") + " p^-1:" + (ext_q ? "y" : "n") + " elements match p:" + (el_p ? "y" : "n") + " p^-1:" + (el_q ? "y" : "n");
            c.fail("permutation-neither-p-nor-inverse", std::string(form ? "permutation(expr): " : "permutation(A): ") + why);
        } else if (p != q && od_p != od_q ? false : false) {}
        if (p != q && (want_p != want_q || od_p != od_q)) { if (by_p && !by_q) ++c.notes["direction=p"]; if (by_q && !by_p) ++c.notes["direction=inverse"]; }
    }
    c.nontrivial = true;
}

// transpose / trans / ctrans on M x N
template <class T> inline T conj_of(const T& x) { return x; }
template <class R> inline std::complex<R> conj_of(const std::complex<R>& x) { return std::conj(x); }

template <bool B> struct If {};
// conjugate transpose is provided for complex element types only (for real types the library rejects it: no conj(float))
template <class T, size_t M, size_t N>
void ctrans_part(Ctx& c, const Tensor<T, M, N>& A, const std::vector<T>& wantc, If<true>) {
    { Framed<Tensor<T, N, M>> B; paint(B->data(), M * N); VP_LIB(*B = ctrans(A)); cmp_moved(c, B->data(), wantc, "B=ctrans(A)", 100); B.verify(c, "B=ctrans(A)"); }
    { Framed<Tensor<T, N, M>> B; paint(B->data(), M * N); VP_LIB(*B = ctranspose(A)); cmp_moved(c, B->data(), wantc, "ctranspose(A)", 100); B.verify(c, "ctranspose(A)"); }
    { Framed<Tensor<T, N, M>> B; paint(B->data(), M * N); VP_LIB(*B = ctranspose(A + T(0))); cmp_moved(c, B->data(), wantc, "ctranspose(expr)", 100); B.verify(c, "ctranspose(expr)"); }
}
template <class T, size_t M, size_t N>
void ctrans_part(Ctx&, const Tensor<T, M, N>&, const std::vector<T>&, If<false>) {}
template <class T, size_t M, size_t N>
void ctrans_real(Ctx& c) {   // sentinel: today rejected by the compiler in every configuration
    VP_OPERAND((Tensor<T, M, N>), A); fill_unique(A.data(), M * N, 100); std::vector<T> want(M * N);
    for (size_t i = 0; i < M; ++i) for (size_t j = 0; j < N; ++j) want[j * M + i] = A.data()[i * N + j];
    Framed<Tensor<T, N, M>> B; paint(B->data(), M * N); VP_LIB(*B = ctrans(A)); cmp_moved(c, B->data(), want, "B=ctrans(A) real", 100); B.verify(c, "ctrans real");
    c.nontrivial = true;
}

template <class T, size_t M, size_t N>
void transpose_case(Ctx& c) {
    VP_OPERAND((Tensor<T, M, N>), A); fill_unique(A.data(), M * N, 100);
    std::vector<T> want(M * N), wantc(M * N);
    for (size_t i = 0; i < M; ++i) for (size_t j = 0; j < N; ++j) { want[j * M + i] = A.data()[i * N + j]; wantc[j * M + i] = conj_of(A.data()[i * N + j]); }
    { Framed<Tensor<T, N, M>> B; paint(B->data(), M * N); VP_LIB(*B = transpose(A)); cmp_moved(c, B->data(), want, "transpose(A)", 100); B.verify(c, "transpose(A)"); }
    { Framed<Tensor<T, N, M>> B; paint(B->data(), M * N); VP_LIB(*B = trans(A)); cmp_moved(c, B->data(), want, "B=trans(A)", 100); B.verify(c, "B=trans(A)"); }
    { Framed<Tensor<T, N, M>> B; paint(B->data(), M * N); VP_LIB(*B = transpose(A + T(0))); cmp_moved(c, B->data(), want, "transpose(expr)", 100); B.verify(c, "transpose(expr)"); }
    ctrans_part<T, M, N>(c, A, wantc, If<is_cplx<T>::value>());
    { Tensor<T, M, N> back = transpose(transpose(A)); launder(back.data()); std::vector<T> orig(A.data(), A.data() + M * N); cmp_moved(c, back.data(), orig, "transpose(transpose(A))", 100); }
    { Tensor<T, N, M> B0; fill_unique(B0.data(), M * N, 5000); Framed<Tensor<T, N, M>> B; std::memcpy(B->data(), B0.data(), sizeof(T) * M * N); launder(B->data());
      VP_LIB(*B += trans(A)); std::vector<T> w(M * N); for (size_t i = 0; i < M * N; ++i) w[i] = B0.data()[i] + want[i]; cmp_moved(c, B->data(), w, "B+=trans(A)", 5100); B.verify(c, "B+=trans(A)"); }
    // every assignment form of the lazy trans() is its own overload (assign, assign_add, assign_sub, assign_mul, assign_div), and so are the
    // element-wise binary nodes that contain it: all of them have to read the operand with its own extents, also when it is not square
    { Tensor<T, N, M> B0; fill_unique(B0.data(), M * N, 5000); T sc = T(3);
      for (int form = 0; form < (is_cplx<T>::value ? 3 : 12); ++form) {
          Framed<Tensor<T, N, M>> B; std::memcpy(B->data(), B0.data(), sizeof(T) * M * N); launder(B->data()); std::vector<T> w(M * N); const char* nm = "";
          switch (form) {
          case 0: VP_LIB(*B -= trans(A)); for (size_t i = 0; i < M * N; ++i) w[i] = B0.data()[i] - want[i]; nm = "B-=trans(A)"; break;
          case 1: VP_LIB(*B += trans(A + T(0))); for (size_t i = 0; i < M * N; ++i) w[i] = B0.data()[i] + want[i]; nm = "B+=trans(expr)"; break;
          case 2: VP_LIB(*B = B0 - trans(A)); for (size_t i = 0; i < M * N; ++i) w[i] = B0.data()[i] - want[i]; nm = "B=B0-trans(A)"; break;
          case 3: VP_LIB(*B *= trans(A)); for (size_t i = 0; i < M * N; ++i) w[i] = B0.data()[i] * want[i]; nm = "B*=trans(A)"; break;
          case 4: VP_LIB(*B /= trans(A)); for (size_t i = 0; i < M * N; ++i) w[i] = B0.data()[i] / want[i]; nm = "B/=trans(A)"; break;
          case 5: VP_LIB(*B *= trans(A + T(0))); for (size_t i = 0; i < M * N; ++i) w[i] = B0.data()[i] * want[i]; nm = "B*=trans(expr)"; break;
          case 6: VP_LIB(*B /= trans(A + T(0))); for (size_t i = 0; i < M * N; ++i) w[i] = B0.data()[i] / want[i]; nm = "B/=trans(expr)"; break;
          case 7: VP_LIB(*B = B0 * trans(A)); for (size_t i = 0; i < M * N; ++i) w[i] = B0.data()[i] * want[i]; nm = "B=B0*trans(A)"; break;
          case 8: VP_LIB(*B = B0 / trans(A)); for (size_t i = 0; i < M * N; ++i) w[i] = B0.data()[i] / want[i]; nm = "B=B0/trans(A)"; break;
          case 9: VP_LIB(*B = trans(A) / B0); for (size_t i = 0; i < M * N; ++i) w[i] = want[i] / B0.data()[i]; nm = "B=trans(A)/B0"; break;
          case 10: VP_LIB(*B = sc * trans(A)); for (size_t i = 0; i < M * N; ++i) w[i] = sc * want[i]; nm = "B=s*trans(A)"; break;
          default: VP_LIB(*B = trans(A) - sc); for (size_t i = 0; i < M * N; ++i) w[i] = want[i] - sc; nm = "B=trans(A)-s"; break;
          }
          for (size_t i = 0; i < M * N; ++i) c.eq(B->data()[i], w[i], nm, (long)i, "lazy-trans-assignment-form");
          B.verify(c, nm);
      } }
    c.nontrivial = M * N > 1;
    if (M * N == 1) c.nontrivial = true;
}

// batched transpose over the trailing two (square) axes
template <class T, size_t B0, size_t J>
void transpose_batched(Ctx& c) {
    VP_OPERAND((Tensor<T, B0, J, J>), A); fill_unique(A.data(), B0 * J * J, 100);
    std::vector<T> want(B0 * J * J);
    for (size_t b = 0; b < B0; ++b) for (size_t i = 0; i < J; ++i) for (size_t j = 0; j < J; ++j) want[b * J * J + j * J + i] = A.data()[b * J * J + i * J + j];
    scrub_stack(); Tensor<T, B0, J, J> out = transpose(A); launder(out.data()); cmp_moved(c, out.data(), want, "transpose(batched)", 100);
    c.nontrivial = true;
}
}} // namespace
#endif
