// long-double / exact-integer linear algebra reference used by C09-C13 and C16
#ifndef VP_LA_H
#define VP_LA_H
#include "vp.h"
#include <algorithm>

namespace vp { namespace la {
typedef long double LD;
typedef std::vector<LD> Mat;      // row-major n x m

inline Mat matmul(const Mat& A, const Mat& B, size_t n, size_t k, size_t m) {
    Mat C(n * m, 0);
    for (size_t i = 0; i < n; ++i) for (size_t l = 0; l < k; ++l) { LD a = A[i * k + l]; for (size_t j = 0; j < m; ++j) C[i * m + j] += a * B[l * m + j]; }
    return C;
}
inline LD norm_inf(const Mat& A, size_t n, size_t m) { LD r = 0; for (size_t i = 0; i < n; ++i) { LD s = 0; for (size_t j = 0; j < m; ++j) s += fabsl(A[i * m + j]); r = std::max(r, s); } return r; }
inline LD norm_max(const Mat& A) { LD r = 0; for (LD x : A) r = std::max(r, fabsl(x)); return r; }
inline bool finite_all(const Mat& A) { for (LD x : A) if (!(x == x) || fabsl(x) > 1e300L) return false; return true; }

// Gauss-Jordan with partial pivoting; returns false when singular to working precision
inline bool inverse(const Mat& A, size_t n, Mat& X) {
    Mat W(n * 2 * n, 0);
    for (size_t i = 0; i < n; ++i) { for (size_t j = 0; j < n; ++j) W[i * 2 * n + j] = A[i * n + j]; W[i * 2 * n + n + i] = 1; }
    for (size_t c = 0; c < n; ++c) {
        size_t p = c; for (size_t r = c + 1; r < n; ++r) if (fabsl(W[r * 2 * n + c]) > fabsl(W[p * 2 * n + c])) p = r;
        if (fabsl(W[p * 2 * n + c]) < 1e-300L) return false;
        if (p != c) for (size_t j = 0; j < 2 * n; ++j) std::swap(W[p * 2 * n + j], W[c * 2 * n + j]);
        LD d = W[c * 2 * n + c]; for (size_t j = 0; j < 2 * n; ++j) W[c * 2 * n + j] /= d;
        for (size_t r = 0; r < n; ++r) if (r != c) { LD f = W[r * 2 * n + c]; if (f != 0) for (size_t j = 0; j < 2 * n; ++j) W[r * 2 * n + j] -= f * W[c * 2 * n + j]; }
    }
    X.assign(n * n, 0); for (size_t i = 0; i < n; ++i) for (size_t j = 0; j < n; ++j) X[i * n + j] = W[i * 2 * n + n + j];
    return true;
}
inline LD cond_inf(const Mat& A, size_t n) { Mat X; if (!inverse(A, n, X)) return 1e300L; return norm_inf(A, n, n) * norm_inf(X, n, n); }
// condition number of every leading principal block (for strategies without pivoting)
inline LD worst_leading_cond(const Mat& A, size_t n) {
    LD w = 0;
    for (size_t k = 1; k <= n; ++k) { Mat B(k * k); for (size_t i = 0; i < k; ++i) for (size_t j = 0; j < k; ++j) B[i * k + j] = A[i * n + j]; w = std::max(w, cond_inf(B, k)); }
    return w;
}
// growth of elimination WITHOUT row exchanges: || |L||U| ||_inf / ||A||_inf  (>= 1).  The classical backward-error result for LU-based
// inversion/solution is |dA| <= c n u |L||U| (Higham, Accuracy and Stability, Thm 9.3), so the constant of an n*u*cond(A) residual bound is
// proportional to this factor; it is close to 1 for the well-conditioned-leading-block inputs the property speaks of.
inline LD lu_growth(const Mat& A0, size_t n) {
    Mat U = A0, L(n * n, 0);
    for (size_t i = 0; i < n; ++i) L[i * n + i] = 1;
    for (size_t c = 0; c < n; ++c) {
        if (U[c * n + c] == 0) return 1e300L;
        for (size_t r = c + 1; r < n; ++r) { LD f = U[r * n + c] / U[c * n + c]; L[r * n + c] = f; for (size_t j = c; j < n; ++j) U[r * n + j] -= f * U[c * n + j]; U[r * n + c] = 0; }
    }
    Mat G(n * n, 0);
    for (size_t i = 0; i < n; ++i) for (size_t k = 0; k < n; ++k) { LD a = fabsl(L[i * n + k]); if (a != 0) for (size_t j = 0; j < n; ++j) G[i * n + j] += a * fabsl(U[k * n + j]); }
    LD na = norm_inf(A0, n, n); if (na == 0) return 1e300L;
    return std::max((LD)1, norm_inf(G, n, n) / na);
}
// the library's static row pre-pivot (for each column j the row i>=j of largest |A(i,j)| of the ORIGINAL matrix is swapped
// into position j of the permutation); returns the pre-pivoted matrix. Used only to decide ADMISSIBILITY of an input for the
// pivoted strategies ("all leading blocks of the row-pre-pivoted A well conditioned"), never to judge a result.
inline Mat prepivot(const Mat& A, size_t n) {
    std::vector<size_t> perm(n); for (size_t i = 0; i < n; ++i) perm[i] = i;
    for (size_t j = 0; j < n; ++j) { size_t mx = j; for (size_t i = j; i < n; ++i) if (fabsl(A[i * n + j]) > fabsl(A[mx * n + j])) mx = i; if (mx != j) std::swap(perm[j], perm[mx]); }
    Mat B(n * n); for (size_t i = 0; i < n; ++i) for (size_t j = 0; j < n; ++j) B[i * n + j] = A[perm[i] * n + j];
    return B;
}
// determinant in long double by partial-pivot elimination
inline LD det(const Mat& A0, size_t n) {
    Mat A = A0; LD d = 1;
    for (size_t c = 0; c < n; ++c) {
        size_t p = c; for (size_t r = c + 1; r < n; ++r) if (fabsl(A[r * n + c]) > fabsl(A[p * n + c])) p = r;
        if (A[p * n + c] == 0) return 0;
        if (p != c) { for (size_t j = 0; j < n; ++j) std::swap(A[p * n + j], A[c * n + j]); d = -d; }
        d *= A[c * n + c];
        for (size_t r = c + 1; r < n; ++r) { LD f = A[r * n + c] / A[c * n + c]; for (size_t j = c; j < n; ++j) A[r * n + j] -= f * A[c * n + j]; }
    }
    return d;
}
// exact determinant of an integer matrix (Bareiss, __int128)
inline __int128 det_exact(const std::vector<long>& A0, size_t n) {
    std::vector<__int128> A(A0.begin(), A0.end()); __int128 prev = 1; int sign = 1;
    for (size_t k = 0; k + 1 < n; ++k) {
        if (A[k * n + k] == 0) { size_t p = k + 1; for (; p < n; ++p) if (A[p * n + k] != 0) break; if (p == n) return 0; for (size_t j = 0; j < n; ++j) std::swap(A[p * n + j], A[k * n + j]); sign = -sign; }
        for (size_t i = k + 1; i < n; ++i) for (size_t j = k + 1; j < n; ++j) A[i * n + j] = (A[i * n + j] * A[k * n + k] - A[i * n + k] * A[k * n + j]) / prev;
        prev = A[k * n + k];
    }
    return sign * A[n * n - 1];
}

// ----------------------------------------------------------------- matrix families (values are run-time)
template <class T> inline Mat to_ld(const T* p, size_t n) { Mat m(n); for (size_t i = 0; i < n; ++i) m[i] = (LD)p[i]; return m; }

// strictly diagonally dominant with random signs: every leading block and Schur complement is well conditioned
template <class T> inline void fill_dominant(T* A, size_t n, Rng& g, bool integer = false) {
    for (size_t i = 0; i < n; ++i) {
        LD off = 0;
        for (size_t j = 0; j < n; ++j) if (i != j) { T v = integer ? (T)g.range(-3, 3) : (T)g.real(-1, 1); A[i * n + j] = v; off += fabsl((LD)v); }
        LD d = off * (integer ? 1 : (LD)g.real(1.5, 3)) + (integer ? (LD)g.range(1, 3) : (LD)g.real(0.5, 1.5));
        A[i * n + i] = (T)((g.next() & 1) ? d : -d);
    }
    launder(A);
}
inline void random_perm(std::vector<size_t>& p, size_t n, Rng& g) { p.resize(n); for (size_t i = 0; i < n; ++i) p[i] = i; for (size_t i = n; i > 1; --i) std::swap(p[i - 1], p[g.next() % i]); }
// row permutation of a dominant matrix (pivoted strategies must recover it)
template <class T> inline void fill_dominant_permuted(T* A, size_t n, Rng& g) {
    std::vector<T> B(n * n); fill_dominant(B.data(), n, g); std::vector<size_t> p; random_perm(p, n, g);
    for (size_t i = 0; i < n; ++i) for (size_t j = 0; j < n; ++j) A[i * n + j] = B[p[i] * n + j];
    launder(A);
}
// random orthogonal matrix by Gram-Schmidt in long double (n small)
inline Mat random_orthogonal(size_t n, Rng& g) {
    Mat Q(n * n);
    for (;;) {
        for (auto& x : Q) x = (LD)g.real(-1, 1);
        bool ok = true;
        for (size_t c = 0; c < n && ok; ++c) {
            for (int pass = 0; pass < 2; ++pass) for (size_t p = 0; p < c; ++p) { LD d = 0; for (size_t i = 0; i < n; ++i) d += Q[i * n + c] * Q[i * n + p]; for (size_t i = 0; i < n; ++i) Q[i * n + c] -= d * Q[i * n + p]; }
            LD nr = 0; for (size_t i = 0; i < n; ++i) nr += Q[i * n + c] * Q[i * n + c]; nr = sqrtl(nr);
            if (nr < 1e-3L) { ok = false; break; }
            for (size_t i = 0; i < n; ++i) Q[i * n + c] /= nr;
        }
        if (ok) return Q;
    }
}
// U * diag(s) * V^T with singular values geometrically spaced in [1/kappa, 1]: 2-norm condition number exactly kappa
template <class T> inline void fill_cond(T* A, size_t n, LD kappa, Rng& g) {
    Mat U = random_orthogonal(n, g), V = random_orthogonal(n, g), S(n * n, 0);
    for (size_t i = 0; i < n; ++i) S[i * n + i] = n == 1 ? 1 : powl(kappa, -(LD)i / (LD)(n - 1));
    Mat US = matmul(U, S, n, n, n); Mat Vt(n * n); for (size_t i = 0; i < n; ++i) for (size_t j = 0; j < n; ++j) Vt[i * n + j] = V[j * n + i];
    Mat M = matmul(US, Vt, n, n, n);
    for (size_t i = 0; i < n * n; ++i) A[i] = (T)M[i];
    launder(A);
}
// symmetric positive definite: B^T B + n I scaled
template <class T> inline void fill_spd(T* A, size_t n, Rng& g) {
    Mat B(n * n); for (auto& x : B) x = (LD)g.real(-1, 1);
    for (size_t i = 0; i < n; ++i) for (size_t j = 0; j < n; ++j) { LD s = 0; for (size_t k = 0; k < n; ++k) s += B[k * n + i] * B[k * n + j]; A[i * n + j] = (T)(s + (i == j ? (LD)n * 0.5L : 0)); }
    launder(A);
}
}} // namespace
#endif
