// C09 -- lazy linear-algebra operators give the same result as their eager counterparts
#ifndef VP_C09_H
#define VP_C09_H
#include "vp_la.h"

namespace vp { namespace c09 {
using namespace Fastor;

// run the lazy and the eager form of one statement on identical state and compare the destination
// EXACT: operands are small integers and the statement only multiplies/adds/transposes -> numeric equality;
// otherwise operands are well-conditioned reals and |lazy-eager| <= 512 n u max(1,|eager|_max)
template <class T, size_t N, bool EXACT, class LZ, class EG>
void stmt(Ctx& c, LZ lazy, EG eager) {
    Rng g = c.rng();
    Tensor<T, N, N> A, B, C, D0;
    for (int rep = 0; rep < 4; ++rep) {
        if (EXACT) { fill_small(A.data(), N * N, g, 3); fill_small(B.data(), N * N, g, 3); fill_small(C.data(), N * N, g, 3); fill_small_nz(D0.data(), N * N, g, 3); }
        else { la::fill_dominant(A.data(), N, g); la::fill_dominant(B.data(), N, g); la::fill_dominant(C.data(), N, g); la::fill_dominant(D0.data(), N, g); }
        T s = opaque((T)g.range(2, 3));
        Framed<Tensor<T, N, N>> DL, DE; std::memcpy(DL->data(), D0.data(), sizeof(T) * N * N); std::memcpy(DE->data(), D0.data(), sizeof(T) * N * N); launder(DL->data()); launder(DE->data());
        VP_LIB(lazy(*DL, A, B, C, s));
        { scrub_stack(); eager(*DE, A, B, C, s); }
        launder(DL->data()); launder(DE->data());
        long double mx = 1; for (size_t i = 0; i < N * N; ++i) if (std::isfinite((double)DE->data()[i])) mx = std::max(mx, fabsl((long double)DE->data()[i]));
        for (size_t i = 0; i < N * N; ++i) {
            if (EXACT) c.eqn(DL->data()[i], DE->data()[i], "D(lazy) vs D(eager)", (long)i, "lazy-differs-from-eager");
            else { if (!std::isfinite((double)DE->data()[i])) { ++c.notes["eager-result-not-finite"]; continue; } c.near(DL->data()[i], (long double)DE->data()[i], 512.0L * N * unit_roundoff<T>() * mx, "D(lazy) vs D(eager)", (long)i, "lazy-differs-from-eager"); }
        }
        if (EXACT) for (size_t i = 0; i < N * N; ++i) { T v = DL->data()[i] + T(0); c.digest_add(&v, 1); }
        DL.verify(c, "D(lazy)"); DE.verify(c, "D(eager)");
        if (rep == 0) c.nontrivial = distinct_count(DE->data(), N * N) >= 2 || N == 1;
    }
}

// the same differential oracle on NON-square operands: A (MxK), B (KxN), Bt (NxK), Ct (NxM), E and the destination D (MxN).  Every lazy node that
// needs evaluation has one overload per assignment operator; an extent mix-up in one of them is invisible on square matrices.
template <class T, size_t M, size_t K, size_t N, bool EXACT, class LZ, class EG>
void stmt_nsq(Ctx& c, LZ lazy, EG eager) {
    Rng g = c.rng();
    Tensor<T, M, K> A; Tensor<T, K, N> B; Tensor<T, N, K> Bt; Tensor<T, N, M> Ct; Tensor<T, M, N> E, D0;
    for (int rep = 0; rep < 4; ++rep) {
        if (EXACT) { fill_small(A.data(), M * K, g, 3); fill_small(B.data(), K * N, g, 3); fill_small(Bt.data(), K * N, g, 3); fill_small_nz(Ct.data(), M * N, g, 3); fill_small_nz(E.data(), M * N, g, 3); fill_small_nz(D0.data(), M * N, g, 3); }
        else { fill_real(A.data(), M * K, g, 0.5, 2); fill_real(B.data(), K * N, g, 0.5, 2); fill_real(Bt.data(), K * N, g, 0.5, 2); fill_real(Ct.data(), M * N, g, 0.5, 2); fill_real(E.data(), M * N, g, 0.5, 2); fill_real(D0.data(), M * N, g, 0.5, 2); }
        T s = opaque((T)g.range(2, 3));
        Framed<Tensor<T, M, N>> DL, DE; std::memcpy(DL->data(), D0.data(), sizeof(T) * M * N); std::memcpy(DE->data(), D0.data(), sizeof(T) * M * N); launder(DL->data()); launder(DE->data());
        VP_LIB(lazy(*DL, A, B, Bt, Ct, E, s));
        { scrub_stack(); eager(*DE, A, B, Bt, Ct, E, s); }
        launder(DL->data()); launder(DE->data());
        long double mx = 1; for (size_t i = 0; i < M * N; ++i) if (std::isfinite((double)DE->data()[i])) mx = std::max(mx, fabsl((long double)DE->data()[i]));
        for (size_t i = 0; i < M * N; ++i) {
            if (EXACT) c.eqn(DL->data()[i], DE->data()[i], "D(lazy) vs D(eager)", (long)i, "lazy-differs-from-eager");
            else { if (!std::isfinite((double)DE->data()[i])) { ++c.notes["eager-result-not-finite"]; continue; } c.near(DL->data()[i], (long double)DE->data()[i], 512.0L * (K + 2) * unit_roundoff<T>() * mx, "D(lazy) vs D(eager)", (long)i, "lazy-differs-from-eager"); }
        }
        DL.verify(c, "D(lazy)"); DE.verify(c, "D(eager)");
        if (rep == 0) c.nontrivial = distinct_count(DE->data(), M * N) >= 2 || M * N == 1;
    }
}

// chain of lazy matrix products against the left-to-right eager product (exact small-integer regime: any association gives the same bits)
template <class T, size_t D0, size_t D1, size_t D2, size_t D3>
void chain3(Ctx& c) {
    Rng g = c.rng(); Tensor<T, D0, D1> A; Tensor<T, D1, D2> B; Tensor<T, D2, D3> C;
    for (int rep = 0; rep < 3; ++rep) {
        fill_small(A.data(), D0 * D1, g, 3); fill_small(B.data(), D1 * D2, g, 3); fill_small(C.data(), D2 * D3, g, 3);
        Framed<Tensor<T, D0, D3>> R; paint(R->data(), D0 * D3); VP_LIB(*R = A % B % C);
        Tensor<T, D0, D3> E = matmul(matmul(A, B), C); launder(E.data());
        for (size_t i = 0; i < D0 * D3; ++i) c.eqn(R->data()[i], E.data()[i], "A%B%C", (long)i, "chain-differs-from-left-to-right");
        Framed<Tensor<T, D0, D3>> R2; fill_small(R2->data(), D0 * D3, g, 3); Tensor<T, D0, D3> r0 = *R2; VP_LIB(*R2 += A % B % C);
        for (size_t i = 0; i < D0 * D3; ++i) c.eqn(R2->data()[i], (T)(r0.data()[i] + E.data()[i]), "R+=A%B%C", (long)i, "chain-differs-from-left-to-right");
        R.verify(c, "chain3"); R2.verify(c, "chain3+=");
    }
    c.nontrivial = true;
}
template <class T, size_t D0, size_t D1, size_t D2, size_t D3, size_t D4>
void chain4(Ctx& c) {
    Rng g = c.rng(); Tensor<T, D0, D1> A; Tensor<T, D1, D2> B; Tensor<T, D2, D3> C; Tensor<T, D3, D4> D;
    for (int rep = 0; rep < 3; ++rep) {
        fill_small(A.data(), D0 * D1, g, 3); fill_small(B.data(), D1 * D2, g, 3); fill_small(C.data(), D2 * D3, g, 2); fill_small(D.data(), D3 * D4, g, 2);
        Framed<Tensor<T, D0, D4>> R; paint(R->data(), D0 * D4); VP_LIB(*R = A % B % C % D);
        Tensor<T, D0, D4> E = matmul(matmul(matmul(A, B), C), D); launder(E.data());
        for (size_t i = 0; i < D0 * D4; ++i) c.eqn(R->data()[i], E.data()[i], "A%B%C%D", (long)i, "chain-differs-from-left-to-right");
        R.verify(c, "chain4");
    }
    c.nontrivial = true;
}
template <class T, size_t D0, size_t D1, size_t D2, size_t D3, size_t D4, size_t D5>
void chain5(Ctx& c) {
    Rng g = c.rng(); Tensor<T, D0, D1> A; Tensor<T, D1, D2> B; Tensor<T, D2, D3> C; Tensor<T, D3, D4> D; Tensor<T, D4, D5> F;
    for (int rep = 0; rep < 3; ++rep) {
        fill_small(A.data(), D0 * D1, g, 2); fill_small(B.data(), D1 * D2, g, 2); fill_small(C.data(), D2 * D3, g, 2); fill_small(D.data(), D3 * D4, g, 2); fill_small(F.data(), D4 * D5, g, 2);
        Framed<Tensor<T, D0, D5>> R; paint(R->data(), D0 * D5); VP_LIB(*R = A % B % C % D % F);
        Tensor<T, D0, D5> E = matmul(matmul(matmul(matmul(A, B), C), D), F); launder(E.data());
        for (size_t i = 0; i < D0 * D5; ++i) c.eqn(R->data()[i], E.data()[i], "A%B%C%D%F", (long)i, "chain-differs-from-left-to-right");
        R.verify(c, "chain5");
    }
    c.nontrivial = true;
}
// chain ending in a vector
template <class T, size_t D0, size_t D1, size_t D2>
void chainv(Ctx& c) {
    Rng g = c.rng(); Tensor<T, D0, D1> A; Tensor<T, D1, D2> B; Tensor<T, D2> v;
    for (int rep = 0; rep < 3; ++rep) {
        fill_small(A.data(), D0 * D1, g, 3); fill_small(B.data(), D1 * D2, g, 3); fill_small(v.data(), D2, g, 3);
        Framed<Tensor<T, D0>> R; paint(R->data(), D0); VP_LIB(*R = A % B % v);
        Tensor<T, D0> E = matmul(matmul(A, B), v); launder(E.data());
        for (size_t i = 0; i < D0; ++i) c.eqn(R->data()[i], E.data()[i], "A%B%v", (long)i, "chain-differs-from-left-to-right");
        R.verify(c, "chainv");
    }
    c.nontrivial = true;
}
}} // namespace
#endif
