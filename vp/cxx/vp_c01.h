// C01 -- matrix product: in-driver reference model and case templates
#ifndef VP_C01_H
#define VP_C01_H
#include "vp.h"

namespace vp { namespace c01 {

using namespace Fastor;

template <class T> struct Acc { using type = T; };

// naive triple loop, wrap-around integer arithmetic, plain accumulation in T
template <class T>
inline void ref_matmul(const T* A, const T* B, T* C, size_t M, size_t K, size_t N) {
    for (size_t i = 0; i < M; ++i)
        for (size_t j = 0; j < N; ++j) {
            T s = T(0);
            for (size_t k = 0; k < K; ++k) s = Arith<T>::add(s, Arith<T>::mul(A[i * K + k], B[k * N + j]));
            C[i * N + j] = s;
        }
}
// long-double reference value and magnitude sum for the rounding regime
template <class T>
inline void ref_matmul_ld(const T* A, const T* B, long double* C, long double* mag, size_t M, size_t K, size_t N) {
    for (size_t i = 0; i < M; ++i)
        for (size_t j = 0; j < N; ++j) {
            long double s = 0, m = 0;
            for (size_t k = 0; k < K; ++k) { long double p = (long double)A[i * K + k] * (long double)B[k * N + j]; s += p; m += fabsl(p); }
            C[i * N + j] = s; mag[i * N + j] = m;
        }
}

template <class T> inline void check_written(Ctx& c, const T* p, size_t n, const char* what) {
    for (size_t i = 0; i < n; ++i) { ++c.checks; if (is_paint(p[i])) c.fail("left-unwritten", std::string(what) + "[" + std::to_string(i) + "] still holds the paint value"); }
}

// compare a result against the exact reference (bitwise)
template <class T> inline void cmp_exact(Ctx& c, const T* got, const T* want, size_t n, const char* what) {
    check_written(c, got, n, what);
    c.eqn_array(got, want, n, what);
    for (size_t i = 0; i < n; ++i) { T v = got[i] + T(0); c.digest_add(&v, 1); }   // +0 normalises -0
}

template <class T, bool F = std::is_floating_point<T>::value> struct Rounding {
    template <class DT, class AT, class BT>
    static void run(Ctx&, DT&, AT&, BT&, size_t, size_t, size_t, Rng&) {}
};
template <class T> struct Rounding<T, true> {
    // generic reals: |C - ref| <= K*eps*sum|a||b|
    template <class DT, class AT, class BT>
    static void run(Ctx& c, DT& C, AT& A, BT& B, size_t M, size_t K, size_t N, Rng& g) {
        fill_real(A.data(), M * K, g); fill_real(B.data(), K * N, g);
        paint(C.data(), M * N);
        VP_LIB(C = matmul(A, B));
        std::vector<long double> ref(M * N), mag(M * N);
        ref_matmul_ld(A.data(), B.data(), ref.data(), mag.data(), M, K, N);
        long double eps = std::numeric_limits<T>::epsilon();
        for (size_t i = 0; i < M * N; ++i) c.near(C.data()[i], ref[i], (long double)K * eps * mag[i], "C(rounding)", (long)i);
    }
};

// ---- general 2-D x 2-D (also covers Mx1, 1xN, K=1 outer, 1x1 inner shapes as 2-D tensors)
template <class T, size_t M, size_t K, size_t N>
void mm(Ctx& c) {
    Rng g = c.rng();
    VP_OPERAND((Tensor<T, M, K>), A); VP_OPERAND((Tensor<T, K, N>), B);
    T ref[M * N];
    for (int draw = 0; draw < 2; ++draw) {
        fill_small(A.data(), M * K, g); fill_small(B.data(), K * N, g);
        ref_matmul(A.data(), B.data(), ref, M, K, N);
        // eager
        {
            Framed<Tensor<T, M, N>> C; paint(C->data(), M * N);
            VP_LIB(*C = matmul(A, B));
            cmp_exact(c, C->data(), ref, M * N, "matmul(A,B)");
            C.verify(c, "matmul(A,B)");
            if (draw == 0 && distinct_count(ref, M * N) >= 2) c.nontrivial = true;
        }
        // lazy assignment into a painted, framed destination
        {
            Framed<Tensor<T, M, N>> C; paint(C->data(), M * N);
            VP_LIB(*C = A % B);
            cmp_exact(c, C->data(), ref, M * N, "C=A%B");
            C.verify(c, "C=A%B");
        }
    }
    if (M * N == 1 && K > 1) c.nontrivial = true;
    Tensor<T, M, N> C;
    Rounding<T>::run(c, C, A, B, M, K, N, g);
}


// ---- lazy compound assignment C += A%B, C -= A%B (separate case: rejected for complex by design)
template <class T, size_t M, size_t K, size_t N>
void mmacc(Ctx& c) {
    Rng g = c.rng(1);
    VP_OPERAND((Tensor<T, M, K>), A); VP_OPERAND((Tensor<T, K, N>), B);
    T ref[M * N];
    for (int draw = 0; draw < 2; ++draw) {
        fill_small(A.data(), M * K, g); fill_small(B.data(), K * N, g);
        ref_matmul(A.data(), B.data(), ref, M, K, N);
        Framed<Tensor<T, M, N>> C; T c0[M * N], want[M * N];
        fill_small(C->data(), M * N, g); std::memcpy(c0, C->data(), sizeof c0);
        VP_LIB(*C += A % B);
        for (size_t i = 0; i < M * N; ++i) want[i] = Arith<T>::add(c0[i], ref[i]);
        cmp_exact(c, C->data(), want, M * N, "C+=A%B");
        VP_LIB(*C -= A % B);
        cmp_exact(c, C->data(), c0, M * N, "C-=A%B");
        C.verify(c, "C+=A%B");
        if (distinct_count(ref, M * N) >= 2 || M * N == 1) c.nontrivial = true;
    }
}

// ---- matrix x 1-D vector and 1-D vector x matrix
template <class T, size_t M, size_t K>
void mv(Ctx& c) {
    Rng g = c.rng();
    VP_OPERAND((Tensor<T, M, K>), A); VP_OPERAND((Tensor<T, K>), b); T ref[M];
    for (int draw = 0; draw < 2; ++draw) {
        fill_small(A.data(), M * K, g); fill_small(b.data(), K, g);
        ref_matmul(A.data(), b.data(), ref, M, K, 1);
        { Framed<Tensor<T, M>> C; paint(C->data(), M); VP_LIB(*C = matmul(A, b)); cmp_exact(c, C->data(), ref, M, "matmul(A,v)"); C.verify(c, "matmul(A,v)"); }
        { Framed<Tensor<T, M>> C; paint(C->data(), M); VP_LIB(*C = A % b); cmp_exact(c, C->data(), ref, M, "A%v"); C.verify(c, "A%v"); }
        if (distinct_count(ref, M) >= 2 || M == 1) c.nontrivial = true;
    }
    Tensor<T, M> C;
    Rounding<T>::run(c, C, A, b, M, K, 1, g);
}
template <class T, size_t K, size_t N>
void vm(Ctx& c) {
    Rng g = c.rng();
    VP_OPERAND((Tensor<T, K>), a); VP_OPERAND((Tensor<T, K, N>), B); T ref[N];
    for (int draw = 0; draw < 2; ++draw) {
        fill_small(a.data(), K, g); fill_small(B.data(), K * N, g);
        ref_matmul(a.data(), B.data(), ref, 1, K, N);
        { Framed<Tensor<T, N>> C; paint(C->data(), N); VP_LIB(*C = matmul(a, B)); cmp_exact(c, C->data(), ref, N, "matmul(v,B)"); C.verify(c, "matmul(v,B)"); }
        if (distinct_count(ref, N) >= 2 || N == 1) c.nontrivial = true;
    }
    Tensor<T, N> C;
    Rounding<T>::run(c, C, a, B, 1, K, N, g);
}


// lazy compound with 1-D operands; lazy vector-matrix (rejected by the library's own static_assert today)
template <class T, size_t M, size_t K>
void mvacc(Ctx& c) {
    Rng g = c.rng(2);
    VP_OPERAND((Tensor<T, M, K>), A); VP_OPERAND((Tensor<T, K>), b); T ref[M];
    for (int draw = 0; draw < 2; ++draw) {
        fill_small(A.data(), M * K, g); fill_small(b.data(), K, g);
        ref_matmul(A.data(), b.data(), ref, M, K, 1);
        Framed<Tensor<T, M>> C; T c0[M], want[M]; fill_small(C->data(), M, g); std::memcpy(c0, C->data(), sizeof c0);
        VP_LIB(*C += A % b); for (size_t i = 0; i < M; ++i) want[i] = Arith<T>::add(c0[i], ref[i]);
        cmp_exact(c, C->data(), want, M, "C+=A%v");
        VP_LIB(*C -= A % b); cmp_exact(c, C->data(), c0, M, "C-=A%v"); C.verify(c, "C+=A%v");
    }
    c.nontrivial = true;
}
template <class T, size_t K, size_t N>
void vmlazy(Ctx& c) {
    Rng g = c.rng(3);
    VP_OPERAND((Tensor<T, K>), a); VP_OPERAND((Tensor<T, K, N>), B); T ref[N];
    for (int draw = 0; draw < 2; ++draw) {
        fill_small(a.data(), K, g); fill_small(B.data(), K * N, g);
        ref_matmul(a.data(), B.data(), ref, 1, K, N);
        Framed<Tensor<T, N>> C; paint(C->data(), N); VP_LIB(*C = a % B); cmp_exact(c, C->data(), ref, N, "v%B"); C.verify(c, "v%B");
    }
    c.nontrivial = true;
}

// ---- outer(a,b) and inner(a,b) on 1-D tensors
template <class T, size_t M, size_t N>
void outer_case(Ctx& c) {
    Rng g = c.rng();
    VP_OPERAND((Tensor<T, M>), a); VP_OPERAND((Tensor<T, N>), b); T ref[M * N];
    for (int draw = 0; draw < 2; ++draw) {
        fill_small_nz(a.data(), M, g); fill_small_nz(b.data(), N, g);
        ref_matmul(a.data(), b.data(), ref, M, 1, N);
        Framed<Tensor<T, M, N>> C; paint(C->data(), M * N);
        VP_LIB(*C = outer(a, b));
        cmp_exact(c, C->data(), ref, M * N, "outer(a,b)"); C.verify(c, "outer(a,b)");
        if (distinct_count(ref, M * N) >= 2 || M * N == 1) c.nontrivial = true;
    }
}
template <class T, size_t N>
void inner_case(Ctx& c) {
    Rng g = c.rng();
    VP_OPERAND((Tensor<T, N>), a); VP_OPERAND((Tensor<T, N>), b); T ref[1];
    for (int draw = 0; draw < 3; ++draw) {
        fill_small(a.data(), N, g); fill_small(b.data(), N, g);
        ref_matmul(a.data(), b.data(), ref, 1, N, 1);
        T got; VP_LIB(got = inner(a, b));
        c.eqn(got, ref[0], "inner(a,b)", 0); c.digest_add(&got, 1);
    }
    c.nontrivial = true;
}

}} // namespace
#endif
