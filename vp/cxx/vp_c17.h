// C17 -- triangular matrix product equals the general product of triangular operands
#ifndef VP_C17_H
#define VP_C17_H
#include "vp.h"
#include "vp_c01.h"

namespace vp { namespace c17 {
using namespace Fastor;

template <int TAG> struct Tag;
template <> struct Tag<0> { using type = UpLoType::General; static const char* name() { return "G"; } };
template <> struct Tag<1> { using type = UpLoType::Lower;   static const char* name() { return "L"; } };
template <> struct Tag<2> { using type = UpLoType::Upper;   static const char* name() { return "U"; } };

// zero outside the tagged triangle of an R x C row-major matrix (trapezoidal when R != C)
template <class T> inline void mask_tri(T* p, size_t R, size_t C, int tag) {
    for (size_t i = 0; i < R; ++i) for (size_t j = 0; j < C; ++j) {
        if (tag == 1 && j > i) p[i * C + j] = T(0);
        if (tag == 2 && j < i) p[i * C + j] = T(0);
    }
}

template <class T, size_t M, size_t K, size_t N, int LT, int RT>
void tmm(Ctx& c) {
    Rng g = c.rng();
    VP_OPERAND((Tensor<T, M, K>), A); VP_OPERAND((Tensor<T, K, N>), B); T ref[M * N];
    for (int draw = 0; draw < 3; ++draw) {
        // non-zero entries inside the triangles so that a dropped k-term is always visible
        fill_small_nz(A.data(), M * K, g, 5); fill_small_nz(B.data(), K * N, g, 5);
        mask_tri(A.data(), M, K, LT); mask_tri(B.data(), K, N, RT);
        launder(A.data()); launder(B.data());
        c01::ref_matmul(A.data(), B.data(), ref, M, K, N);
        Framed<Tensor<T, M, N>> C; paint(C->data(), M * N);
        VP_LIB((*C = tmatmul<typename Tag<LT>::type, typename Tag<RT>::type>(A, B)));
        c01::check_written(c, C->data(), M * N, "tmatmul");
        c.eqn_array(C->data(), ref, M * N, "tmatmul");
        for (size_t i = 0; i < M * N; ++i) { T v = C->data()[i] + T(0); c.digest_add(&v, 1); }
        C.verify(c, "tmatmul");
        if (distinct_count(ref, M * N) >= 2 || M * N == 1) c.nontrivial = true;
    }
    // generic reals (rounding regime): K*eps*sum|a||b|
    if (std::is_floating_point<T>::value) {
        fill_real(A.data(), M * K, g); fill_real(B.data(), K * N, g);
        mask_tri(A.data(), M, K, LT); mask_tri(B.data(), K, N, RT);
        launder(A.data()); launder(B.data());
        VP_OPERAND((Tensor<T, M, N>), C); paint(C.data(), M * N);
        VP_LIB((C = tmatmul<typename Tag<LT>::type, typename Tag<RT>::type>(A, B)));
        std::vector<long double> r(M * N), mag(M * N);
        c01::ref_matmul_ld(A.data(), B.data(), r.data(), mag.data(), M, K, N);
        long double eps = std::numeric_limits<real_t<T>>::epsilon();
        for (size_t i = 0; i < M * N; ++i) c.near(C.data()[i], r[i], (long double)K * eps * mag[i], "tmatmul(rounding)", (long)i);
    }
}

// matrix x 1-D vector and 1-D vector x matrix overloads
template <class T, size_t M, size_t K, int LT>
void tmv(Ctx& c) {
    Rng g = c.rng();
    VP_OPERAND((Tensor<T, M, K>), A); VP_OPERAND((Tensor<T, K>), b); T ref[M];
    for (int draw = 0; draw < 3; ++draw) {
        fill_small_nz(A.data(), M * K, g, 5); fill_small_nz(b.data(), K, g, 5); mask_tri(A.data(), M, K, LT); launder(A.data());
        c01::ref_matmul(A.data(), b.data(), ref, M, K, 1);
        Framed<Tensor<T, M>> C; paint(C->data(), M);
        VP_LIB((*C = tmatmul<typename Tag<LT>::type, UpLoType::General>(A, b)));
        c01::check_written(c, C->data(), M, "tmatmul(A,v)"); c.eqn_array(C->data(), ref, M, "tmatmul(A,v)"); C.verify(c, "tmatmul(A,v)");
    }
    c.nontrivial = true;
}
template <class T, size_t K, size_t N, int RT>
void tvm(Ctx& c) {
    Rng g = c.rng();
    VP_OPERAND((Tensor<T, K>), a); VP_OPERAND((Tensor<T, K, N>), B); T ref[N];
    for (int draw = 0; draw < 3; ++draw) {
        fill_small_nz(a.data(), K, g, 5); fill_small_nz(B.data(), K * N, g, 5); mask_tri(B.data(), K, N, RT); launder(B.data());
        c01::ref_matmul(a.data(), B.data(), ref, 1, K, N);
        Framed<Tensor<T, N>> C; paint(C->data(), N);
        VP_LIB((*C = tmatmul<UpLoType::General, typename Tag<RT>::type>(a, B)));
        c01::check_written(c, C->data(), N, "tmatmul(v,B)"); c.eqn_array(C->data(), ref, N, "tmatmul(v,B)"); C.verify(c, "tmatmul(v,B)");
    }
    c.nontrivial = true;
}
}} // namespace
#endif
