// C18 -- overlapping slice assignment with noalias() acts on a snapshot of the source
#ifndef VP_C18_H
#define VP_C18_H
#include "vp_views.h"
#include "vp_c04.h"
#include "vp_c05.h"

namespace vp { namespace c18 {
using namespace Fastor; using namespace vp::vw;
using c05::apply; using c05::OPN; using c05::fill_parent;

template <class T> inline void cmp_all(Ctx& c, const T* got, const T* model, size_t n, const std::string& what) {
    c.digest_add(got, n);
    for (size_t i = 0; i < n; ++i) {
        ++c.compared;
        if (same_val(got[i], model[i])) continue;
        ++c.bad;
        if (c.mode.empty()) { c.mode = "not-a-snapshot-result"; c.first_bad = what + " parent offset " + std::to_string(i) + " got " + vstr(got[i]) + " want (from snapshot) " + vstr(model[i]); }
    }
}

inline bool overlap(const std::vector<int>& a, const std::vector<int>& b) { for (int x : a) for (int y : b) if (x == y) return true; return false; }

// ------------------------------------------------------------------ dynamic 1-D: all pairs of equal-extent ranges
// f kinds: 0 identity, 1 x*2+1, 2 A(r2)+A(r3) (two overlapping source slices)
template <class T, size_t N>
void dyn1d(Ctx& c) {
    Rng g = c.rng();
    Framed<Tensor<T, N>> FA; Tensor<T, N>& A = *FA;
    T s0[N], model[N], rhs[N];
    std::vector<R1> all; enum_ranges((int)N, -1, all, false);
    std::vector<std::vector<size_t>> bym(N + 1); for (size_t k = 0; k < all.size(); ++k) bym[all[k].m].push_back(k);
    fill_parent(s0, N, g);
    std::vector<int> o1, o2, o3;
    long overlapping = 0, pairs = 0, step = 0;
    size_t npairs = 0; for (auto& v : bym) npairs += v.size() * v.size();
    const size_t stride = npairs > 60000 ? npairs / 60000 + 1 : 1;     // bounded work; the stride phase depends on the seed
    size_t ctr = (size_t)(c.seed % stride);
    for (size_t m = 1; m <= N; ++m) for (size_t i1 : bym[m]) for (size_t i2 : bym[m]) {
        if ((ctr++) % stride) continue;
        const R1& r1 = all[i1]; const R1& r2 = all[i2]; const R1& r3 = all[bym[m][(i2 * 3 + 1) % bym[m].size()]];
        offsets({ (int)N }, { r1 }, o1); offsets({ (int)N }, { r2 }, o2); offsets({ (int)N }, { r3 }, o3);
        bool ov = overlap(o1, o2); overlapping += ov; ++pairs;
        int op = (int)(step % 5), f = (int)((step / 5) % 3); ++step;
        for (size_t j = 0; j < m; ++j) rhs[j] = f == 0 ? s0[o2[j]] : (f == 1 ? (T)(s0[o2[j]] * T(2) + T(1)) : (T)(s0[o2[j]] + s0[o3[j]]));
        if (op == 4) { bool z = false; for (size_t j = 0; j < m; ++j) if (rhs[j] == T(0)) z = true; if (z) op = 1; }
        std::memcpy(A.data(), s0, sizeof s0); std::memcpy(model, s0, sizeof s0); launder(A.data());
        for (size_t j = 0; j < m; ++j) model[o1[j]] = apply(op, s0[o1[j]], rhs[j]);
        seq q1(opaque(r1.f), opaque(r1.l), opaque(r1.s)), q2(opaque(r2.f), opaque(r2.l), opaque(r2.s)), q3(r3.f, r3.l, r3.s);
#define VP_DO(LHS) switch (f) { \
        case 0: switch (op) { case 0: LHS = A(q2); break; case 1: LHS += A(q2); break; case 2: LHS -= A(q2); break; case 3: LHS *= A(q2); break; default: LHS /= A(q2); } break; \
        case 1: switch (op) { case 0: LHS = A(q2) * T(2) + T(1); break; case 1: LHS += A(q2) * T(2) + T(1); break; case 2: LHS -= A(q2) * T(2) + T(1); break; case 3: LHS *= A(q2) * T(2) + T(1); break; default: LHS /= A(q2) * T(2) + T(1); } break; \
        default: switch (op) { case 0: LHS = A(q2) + A(q3); break; case 1: LHS += A(q2) + A(q3); break; case 2: LHS -= A(q2) + A(q3); break; case 3: LHS *= A(q2) + A(q3); break; default: LHS /= A(q2) + A(q3); } break; }
        VP_DO(A(q1).noalias())
        launder(A.data());
        cmp_all(c, A.data(), model, N, std::string("A(") + show(r1) + ").noalias()" + OPN[op] + "f" + std::to_string(f) + "(A(" + show(r2) + "))");
        ++c.sub;
        // perfect overlap without noalias(): A(r) op= g(A(r))
        if (i1 == i2 && f < 2) {
            std::memcpy(A.data(), s0, sizeof s0); launder(A.data());
            VP_DO(A(q1))
            launder(A.data());
            cmp_all(c, A.data(), model, N, std::string("A(") + show(r1) + ")" + OPN[op] + "g(A(same)) without noalias");
            ++c.sub;
        }
    }
#undef VP_DO
    // repeated application on the SAME view object: the alias flag has to re-arm
    for (int it = 0; it < 300; ++it) {
        size_t m = 1 + g.next() % N; if (bym[m].empty()) continue;
        const R1& r1 = all[bym[m][g.next() % bym[m].size()]]; const R1& r2 = all[bym[m][g.next() % bym[m].size()]];
        offsets({ (int)N }, { r1 }, o1); offsets({ (int)N }, { r2 }, o2);
        std::memcpy(A.data(), s0, sizeof s0); std::memcpy(model, s0, sizeof s0); launder(A.data());
        seq q1(r1.f, r1.l, r1.s), q2(r2.f, r2.l, r2.s);
        auto v = A(q1);
        for (int rep = 0; rep < 3; ++rep) {
            T snap[N]; std::memcpy(snap, model, sizeof snap);
            for (size_t j = 0; j < m; ++j) model[o1[j]] = snap[o1[j]] + snap[o2[j]];
            v.noalias() += A(q2);
            launder(A.data());
            // keep magnitudes small
            cmp_all(c, A.data(), model, N, "same view object, application " + std::to_string(rep) + ": v.noalias()+=A(" + show(r2) + ") with v=A(" + show(r1) + ")");
        }
        ++c.sub;
    }
    FA.verify(c, "parent frame");
    c.notes["pairs"] += pairs; c.notes["overlapping-pairs"] += overlapping;
    c.nontrivial = overlapping > 0 || N == 1;
}

// ------------------------------------------------------------------ dynamic 2-D and n-D (sampled pairs)
template <class T, class PD> struct DYN;
template <class T, size_t... D>
struct DYN<T, Index<D...>> {
    static constexpr size_t R = sizeof...(D);
    template <size_t... I>
    static void one(Ctx& c, Tensor<T, D...>& A, const T* s0, T* model, const std::vector<R1>& a, const std::vector<R1>& b, const std::vector<int>& o1, const std::vector<int>& o2, int op, int f, bool same, std::index_sequence<I...>) {
        constexpr size_t SZ = Tensor<T, D...>::size();
        std::vector<T> rhs(o1.size());
        for (size_t j = 0; j < o1.size(); ++j) rhs[j] = f == 0 ? s0[o2[j]] : (T)(s0[o2[j]] * T(2) + T(1));
        std::memcpy(A.data(), s0, sizeof(T) * SZ); std::memcpy(model, s0, sizeof(T) * SZ); launder(A.data());
        for (size_t j = 0; j < o1.size(); ++j) model[o1[j]] = apply(op, s0[o1[j]], rhs[j]);
#define VP_L A(seq(opaque(a[I].f), opaque(a[I].l), opaque(a[I].s))...)
#define VP_S A(seq(b[I].f, b[I].l, b[I].s)...)
#define VP_DO2(LHS) if (f == 0) { switch (op) { case 0: LHS = VP_S; break; case 1: LHS += VP_S; break; case 2: LHS -= VP_S; break; case 3: LHS *= VP_S; break; default: LHS /= VP_S; } } \
                    else { switch (op) { case 0: LHS = VP_S * T(2) + T(1); break; case 1: LHS += VP_S * T(2) + T(1); break; case 2: LHS -= VP_S * T(2) + T(1); break; case 3: LHS *= VP_S * T(2) + T(1); break; default: LHS /= VP_S * T(2) + T(1); } }
        VP_DO2(VP_L.noalias())
        launder(A.data());
        std::string d; for (auto& r : a) d += show(r) + ","; d += " <- "; for (auto& r : b) d += show(r) + ",";
        cmp_all(c, A.data(), model, SZ, std::string("A(..).noalias()") + OPN[op] + "f" + std::to_string(f) + " " + d);
        if (same) {
            std::memcpy(A.data(), s0, sizeof(T) * SZ); launder(A.data());
            VP_DO2(VP_L)
            launder(A.data());
            cmp_all(c, A.data(), model, SZ, std::string("A(r)") + OPN[op] + "g(A(r)) without noalias " + d);
        }
#undef VP_L
#undef VP_S
#undef VP_DO2
    }
    static void run(Ctx& c) {
        Rng g = c.rng();
        Framed<Tensor<T, D...>> FA; Tensor<T, D...>& A = *FA; constexpr size_t SZ = Tensor<T, D...>::size();
        T s0[SZ], model[SZ]; fill_parent(s0, SZ, g);
        std::vector<int> dims = { (int)D... };
        std::vector<std::vector<R1>> per(R); for (size_t n = 0; n < R; ++n) enum_ranges(dims[n], -1, per[n], false);
        std::vector<int> o1, o2; long ovl = 0;
        for (int it = 0; it < 3000; ++it) {
            std::vector<R1> a, b;
            bool same = it % 10 == 0;
            for (size_t n = 0; n < R; ++n) {
                const R1& ra = per[n][g.next() % per[n].size()]; a.push_back(ra);
                if (same) { b.push_back(ra); continue; }
                // a source range of the same extent, preferably close to the destination range (overlap)
                std::vector<const R1*> cand; for (auto& q : per[n]) if (q.m == ra.m) cand.push_back(&q);
                const R1* pick = cand[g.next() % cand.size()];
                for (int t = 0; t < 3; ++t) { const R1* q = cand[g.next() % cand.size()]; if (std::abs(q->f - ra.f) < std::abs(pick->f - ra.f)) pick = q; }
                b.push_back(*pick);
            }
            offsets(dims, a, o1); offsets(dims, b, o2);
            ovl += overlap(o1, o2);
            one(c, A, s0, model, a, b, o1, o2, it % 5, (it / 5) % 2, same, std::make_index_sequence<R>());
            ++c.sub;
        }
        FA.verify(c, "parent frame");
        c.notes["overlapping-pairs"] += ovl; c.nontrivial = ovl > 0;
    }
};

// ------------------------------------------------------------------ compile-time (fseq) views: destination ranges Fd..., source ranges Fs...
template <class T, class PD, class LD, class LS> struct FIX;
template <class... F> struct L {};
template <class T, size_t... D, class... Fd, class... Fs>
struct FIX<T, Index<D...>, L<Fd...>, L<Fs...>> {
    static void run(Ctx& c) {
        Rng g = c.rng();
        Framed<Tensor<T, D...>> FA; Tensor<T, D...>& A = *FA; constexpr size_t SZ = Tensor<T, D...>::size();
        T s0[SZ], model[SZ];
        std::vector<int> dims = { (int)D... };
        std::vector<R1> rd = { c04::norm_fixed(Fd::f, Fd::l, Fd::s, (int)D)... }, rsrc = { c04::norm_fixed(Fs::f, Fs::l, Fs::s, (int)D)... };
        std::vector<int> o1, o2; offsets(dims, rd, o1); offsets(dims, rsrc, o2);
        if (o1.size() != o2.size()) { c.fail("harness", "extent mismatch in generated pair"); return; }
        std::string d; for (auto& r : rd) d += show(r) + ","; d += " <- "; for (auto& r : rsrc) d += show(r) + ",";
        bool same = o1 == o2;
        for (int rep = 0; rep < 2; ++rep) {
            fill_parent(s0, SZ, g);
            for (int op = 0; op < 5; ++op) for (int f = 0; f < 2; ++f) {
                std::memcpy(A.data(), s0, sizeof s0); std::memcpy(model, s0, sizeof s0); launder(A.data());
                for (size_t j = 0; j < o1.size(); ++j) model[o1[j]] = apply(op, s0[o1[j]], f == 0 ? s0[o2[j]] : (T)(s0[o2[j]] * T(2) + T(1)));
#define VP_L A(fseq<Fd::f, Fd::l, Fd::s>()...)
#define VP_S A(fseq<Fs::f, Fs::l, Fs::s>()...)
#define VP_DO3(LHS) if (f == 0) { switch (op) { case 0: LHS = VP_S; break; case 1: LHS += VP_S; break; case 2: LHS -= VP_S; break; case 3: LHS *= VP_S; break; default: LHS /= VP_S; } } \
                    else { switch (op) { case 0: LHS = VP_S * T(2) + T(1); break; case 1: LHS += VP_S * T(2) + T(1); break; case 2: LHS -= VP_S * T(2) + T(1); break; case 3: LHS *= VP_S * T(2) + T(1); break; default: LHS /= VP_S * T(2) + T(1); } }
                VP_DO3(VP_L.noalias())
                launder(A.data());
                cmp_all(c, A.data(), model, SZ, std::string("A(fseq).noalias()") + OPN[op] + "f" + std::to_string(f) + " " + d);
                if (same) { std::memcpy(A.data(), s0, sizeof s0); launder(A.data()); VP_DO3(VP_L) launder(A.data()); cmp_all(c, A.data(), model, SZ, std::string("A(fseq)") + OPN[op] + "g(A(same)) " + d); }
                ++c.sub;
            }
            // repeated application on the same view object
            { std::memcpy(A.data(), s0, sizeof s0); std::memcpy(model, s0, sizeof s0); launder(A.data());
              auto v = VP_L;
              for (int k = 0; k < 3; ++k) { T snap[SZ]; std::memcpy(snap, model, sizeof snap); for (size_t j = 0; j < o1.size(); ++j) model[o1[j]] = snap[o1[j]] + snap[o2[j]];
                  v.noalias() += VP_S; launder(A.data()); cmp_all(c, A.data(), model, SZ, "same fixed view object, application " + std::to_string(k) + " " + d); } }
#undef VP_L
#undef VP_S
#undef VP_DO3
        }
        FA.verify(c, "parent frame");
        c.notes[overlap(o1, o2) ? "overlapping" : "disjoint"] += 1;
        c.nontrivial = true;
    }
};

// ------------------------------------------------------------------ index-tensor views and mask views
template <class T, size_t N, size_t K>
void random1d(Ctx& c) {
    Rng g = c.rng();
    Framed<Tensor<T, N>> FA; Tensor<T, N>& A = *FA; T s0[N], model[N]; fill_parent(s0, N, g);
    for (int it = 0; it < 2000; ++it) {
        Tensor<int, K> i1, i2;
        // duplicate-free destination indices, arbitrary source indices
        std::vector<int> perm(N); for (size_t i = 0; i < N; ++i) perm[i] = (int)i; for (size_t i = N - 1; i > 0; --i) std::swap(perm[i], perm[g.next() % (i + 1)]);
        for (size_t k = 0; k < K; ++k) { i1.data()[k] = perm[k]; i2.data()[k] = (int)(g.next() % N); }
        if (it % 4 == 0) for (size_t k = 0; k < K; ++k) i2.data()[k] = perm[(k + 1) % K];    // a rotation of the destination set: full overlap
        launder(i1.data()); launder(i2.data());
        int op = it % 5, f = (it / 5) % 2;
        std::memcpy(A.data(), s0, sizeof s0); std::memcpy(model, s0, sizeof s0); launder(A.data());
        for (size_t k = 0; k < K; ++k) model[i1.data()[k]] = apply(op, s0[i1.data()[k]], f == 0 ? s0[i2.data()[k]] : (T)(s0[i2.data()[k]] * T(2) + T(1)));
        if (f == 0) { switch (op) { case 0: A(i1).noalias() = A(i2); break; case 1: A(i1).noalias() += A(i2); break; case 2: A(i1).noalias() -= A(i2); break; case 3: A(i1).noalias() *= A(i2); break; default: A(i1).noalias() /= A(i2); } }
        else { switch (op) { case 0: A(i1).noalias() = A(i2) * T(2) + T(1); break; case 1: A(i1).noalias() += A(i2) * T(2) + T(1); break; case 2: A(i1).noalias() -= A(i2) * T(2) + T(1); break; case 3: A(i1).noalias() *= A(i2) * T(2) + T(1); break; default: A(i1).noalias() /= A(i2) * T(2) + T(1); } }
        launder(A.data());
        cmp_all(c, A.data(), model, N, std::string("A(it).noalias()") + OPN[op] + "f" + std::to_string(f) + "(A(it'))");
        ++c.sub;
    }
    FA.verify(c, "parent frame"); c.nontrivial = true;
}
template <class T, size_t M, size_t N>
void mask2d(Ctx& c) {
    Rng g = c.rng();
    Framed<Tensor<T, M, N>> FA; Tensor<T, M, N>& A = *FA; T s0[M * N], model[M * N]; fill_parent(s0, M * N, g);
    for (int it = 0; it < 1500; ++it) {
        Tensor<bool, M, N> mk; for (size_t i = 0; i < M * N; ++i) mk.data()[i] = (g.next() % 3) != 0; launder(mk.data());
        int op = it % 5;
        std::memcpy(A.data(), s0, sizeof s0); std::memcpy(model, s0, sizeof s0); launder(A.data());
        // the right-hand side refers to the same tensor (perfect overlap, element-wise): A(mask) op= g(A)
        for (size_t i = 0; i < M * N; ++i) if (mk.data()[i]) model[i] = apply(op, s0[i], (T)(s0[i] * T(2) + T(1)));
        switch (op) { case 0: A(mk).noalias() = A * T(2) + T(1); break; case 1: A(mk).noalias() += A * T(2) + T(1); break; case 2: A(mk).noalias() -= A * T(2) + T(1); break; case 3: A(mk).noalias() *= A * T(2) + T(1); break; default: A(mk).noalias() /= A * T(2) + T(1); }
        launder(A.data());
        cmp_all(c, A.data(), model, M * N, std::string("A(mask).noalias()") + OPN[op] + "g(A)");
        ++c.sub;
    }
    FA.verify(c, "parent frame"); c.nontrivial = true;
}
}} // namespace
#endif
