// C03 -- pairwise einsum / contraction / single-tensor einsum / inner / outer / explicit output
#ifndef VP_C03_H
#define VP_C03_H
#include "vp_einsum.h"

namespace vp { namespace c03 {
using namespace Fastor; using namespace vp::es;

template <class TA, class TB> struct Fill2 {
    using T = typename TensVals<TA>::scalar;
    static void small(TA& a, TB& b, Rng& g) { fill_small(a.data(), TensVals<TA>::size, g, 5); fill_small(b.data(), TensVals<TB>::size, g, 5); }
    static void real(TA& a, TB& b, Rng& g) { fill_real(a.data(), TensVals<TA>::size, g); fill_real(b.data(), TensVals<TB>::size, g); }
};

template <class RT, class T> inline void cmp_round(Ctx& c, const RT& res, const std::vector<long double>& want, const std::vector<long double>& mag, size_t nterms, const char* what) {
    long double eps = std::numeric_limits<real_t<T>>::epsilon();
    if (res.size() != want.size()) { c.fail("extents-mismatch", "size"); return; }
    for (size_t i = 0; i < want.size(); ++i) c.near(res.data()[i], want[i], (long double)(nterms + 2) * eps * mag[i] + 0, what, (long)i);
}

// which: 0 einsum, 1 contraction
template <int WHICH, class IA, class IB, class TA, class TB> struct Call;
template <class IA, class IB, class TA, class TB> struct Call<0, IA, IB, TA, TB> { static auto go(const TA& a, const TB& b) { return einsum<IA, IB>(a, b); } };
template <class IA, class IB, class TA, class TB> struct Call<1, IA, IB, TA, TB> { static auto go(const TA& a, const TB& b) { return contraction<IA, IB>(a, b); } };

template <int WHICH, class IA, class IB, class TA, class TB>
void pair_case(Ctx& c) {
    using T = typename TensVals<TA>::scalar;
    Rng g = c.rng();
    VP_OPERAND((TA), a); VP_OPERAND((TB), b);
    std::vector<Operand> ops = { { IdxVals<IA>::get(), TensVals<TA>::dims() }, { IdxVals<IB>::get(), TensVals<TB>::dims() } };
    size_t nterms = 1; { std::map<size_t, size_t> ext; label_extents(ops, ext); auto fr = free_labels(ops); for (auto& kv : ext) if (std::find(fr.begin(), fr.end(), kv.first) == fr.end()) nterms *= kv.second; }
    for (int draw = 0; draw < 2; ++draw) {
        Fill2<TA, TB>::small(a, b, g);
        std::vector<T> want; std::vector<size_t> wd;
        if (!ref_einsum<T, T>(ops, { a.data(), b.data() }, {}, want, wd)) { c.fail("harness", "inconsistent extents in generated case"); return; }
        scrub_stack();
        auto res = Call<WHICH, IA, IB, TA, TB>::go(a, b); launder((void*)res.data());
        cmp_result(c, res, want, wd, WHICH ? "contraction(a,b)" : "einsum(a,b)");
        if (draw == 0) c.nontrivial = distinct_count(want.data(), want.size()) >= 2 || (want.size() == 1 && nterms > 1);
        // the same call with unevaluated expressions as arguments
        if (draw == 1) { scrub_stack(); auto res2 = Call<WHICH, IA, IB, TA, TB>::go(a, b); (void)res2; }
    }
    if (std::is_floating_point<T>::value) {
        Fill2<TA, TB>::real(a, b, g);
        std::vector<long double> want, mag; std::vector<size_t> wd;
        ref_einsum<T, long double>(ops, { a.data(), b.data() }, {}, want, wd, &mag);
        scrub_stack();
        auto res = Call<WHICH, IA, IB, TA, TB>::go(a, b); launder((void*)res.data());
        cmp_round<decltype(res), T>(c, res, want, mag, nterms, "einsum(a,b) rounding");
    }
}

// einsum with abstract (expression) operands: einsum<IA,IB>(a+0, b*1)
template <class IA, class IB, class TA, class TB>
void pair_expr_case(Ctx& c) {
    using T = typename TensVals<TA>::scalar;
    Rng g = c.rng(1);
    VP_OPERAND((TA), a); VP_OPERAND((TB), b); Fill2<TA, TB>::small(a, b, g);
    std::vector<Operand> ops = { { IdxVals<IA>::get(), TensVals<TA>::dims() }, { IdxVals<IB>::get(), TensVals<TB>::dims() } };
    std::vector<T> want; std::vector<size_t> wd; ref_einsum<T, T>(ops, { a.data(), b.data() }, {}, want, wd);
    scrub_stack(); auto res = einsum<IA, IB>(a + T(0), b * T(1)); launder((void*)res.data());
    cmp_result(c, res, want, wd, "einsum(expr,expr)");
    c.nontrivial = true;
}

#if __cplusplus >= 201703L
template <class IA, class IB, class IO, class TA, class TB>
void pair_explicit_case(Ctx& c) {
    using T = typename TensVals<TA>::scalar;
    Rng g = c.rng(2);
    VP_OPERAND((TA), a); VP_OPERAND((TB), b);
    std::vector<Operand> ops = { { IdxVals<IA>::get(), TensVals<TA>::dims() }, { IdxVals<IB>::get(), TensVals<TB>::dims() } };
    for (int draw = 0; draw < 2; ++draw) {
        Fill2<TA, TB>::small(a, b, g);
        std::vector<T> want; std::vector<size_t> wd; ref_einsum<T, T>(ops, { a.data(), b.data() }, IdxVals<typename IO::parent_type>::get(), want, wd);
        scrub_stack(); auto res = einsum<IA, IB, IO>(a, b); launder((void*)res.data());
        cmp_result(c, res, want, wd, "einsum<..,OIndex>(a,b)");
        c.nontrivial = c.nontrivial || distinct_count(want.data(), want.size()) >= 2;
    }
}
#else
template <class IA, class IB, class IO, class TA, class TB> void pair_explicit_case(Ctx& c) { c.status = "na"; }
#endif

// single tensor einsum / contraction (traces)
template <int WHICH, class IA, class TA> struct Call1;
template <class IA, class TA> struct Call1<0, IA, TA> { static auto go(const TA& a) { return einsum<IA>(a); } };
template <class IA, class TA> struct Call1<1, IA, TA> { static auto go(const TA& a) { return contraction<IA>(a); } };
template <int WHICH, class IA, class TA>
void single_case(Ctx& c) {
    using T = typename TensVals<TA>::scalar;
    Rng g = c.rng(3);
    VP_OPERAND((TA), a);
    std::vector<Operand> ops = { { IdxVals<IA>::get(), TensVals<TA>::dims() } };
    for (int draw = 0; draw < 2; ++draw) {
        fill_small(a.data(), TensVals<TA>::size, g, 7);
        std::vector<T> want; std::vector<size_t> wd; ref_einsum<T, T>(ops, { a.data() }, {}, want, wd);
        scrub_stack(); auto res = Call1<WHICH, IA, TA>::go(a); launder((void*)res.data());
        cmp_result(c, res, want, wd, "einsum<I>(a)");
    }
    c.nontrivial = true;
}

// inner(a,b) (full reduction, any rank) and outer(a,b) (rank-raising), tensors of equal / arbitrary shape
template <class TA>
void inner_case(Ctx& c) {
    using T = typename TensVals<TA>::scalar;
    Rng g = c.rng(4); TA a, b;
    for (int draw = 0; draw < 3; ++draw) {
        fill_small(a.data(), TensVals<TA>::size, g, 7); fill_small(b.data(), TensVals<TA>::size, g, 7);
        T w = T(0); for (size_t i = 0; i < TensVals<TA>::size; ++i) w = Arith<T>::add(w, Arith<T>::mul(a.data()[i], b.data()[i]));
        T got; VP_LIB(got = inner(a, b)); c.eqn(got, w, "inner(a,b)", 0);
        T got2; VP_LIB(got2 = inner(a + T(0), b)); c.eqn(got2, w, "inner(expr,b)", 0);
        c.digest_add(&got, 1);
    }
    c.nontrivial = true;
}
template <class TA, class TB>
void outer_case(Ctx& c) {
    using T = typename TensVals<TA>::scalar;
    Rng g = c.rng(5); TA a; TB b;
    std::vector<size_t> la, lb; for (size_t n = 0; n < TensVals<TA>::dims().size(); ++n) la.push_back(n); for (size_t n = 0; n < TensVals<TB>::dims().size(); ++n) lb.push_back(100 + n);
    std::vector<Operand> ops = { { la, TensVals<TA>::dims() }, { lb, TensVals<TB>::dims() } };
    for (int draw = 0; draw < 2; ++draw) {
        fill_small_nz(a.data(), TensVals<TA>::size, g, 7); fill_small_nz(b.data(), TensVals<TB>::size, g, 7);
        std::vector<T> want; std::vector<size_t> wd; ref_einsum<T, T>(ops, { a.data(), b.data() }, {}, want, wd);
        scrub_stack(); auto res = outer(a, b); launder((void*)res.data());
        cmp_result(c, res, want, wd, "outer(a,b)");
    }
    c.nontrivial = true;
}
}} // namespace
#endif
