// vp.h -- common runtime-monitoring harness linked into every generated driver.
//
// Every generated translation unit includes this header AFTER <Fastor/Fastor.h>, defines
// a number of case functions `static void f(vp::Ctx&)`, registers them with VP_CASE and
// (exactly one TU per executable) defines VP_MAIN.  A case calls the real library through
// its public API, evaluates a naive reference model on the same input bytes, and reports
// through the Ctx.  One JSON line per case is appended to the event file; the offline
// checker (python) turns events into verdicts.
//
// Monitors implemented here:
//   M2  canaries / paint       vp::Framed<T>, vp::paint, vp::is_paint
//   M3  guard pages            vp::Guard
//   M5  allocation monitor     operator new/delete + malloc family, armed by vp::InLib
//   M7  route witnesses        Fastor::verif::route sinks (when FASTOR_VERIF_HOOKS)
//   crash attribution          signal handlers writing a crash event for `current case`
// All identifiers are prefixed vp:: / VP_ (Fastor uses short template names like TT, V, M).
#ifndef VP_H
#define VP_H

#include <cstdint>
#include <cstdio>
#include <cstdlib>
#include <cstring>
#include <cmath>
#include <complex>
#include <string>
#include <vector>
#include <map>
#include <type_traits>
#include <limits>
#include <exception>
#include <stdexcept>
#include <csignal>
#include <unistd.h>
#include <fcntl.h>
#include <sys/mman.h>

#if defined(__SANITIZE_ADDRESS__)
#define VP_ASAN 1
#elif defined(__has_feature)
#if __has_feature(address_sanitizer)
#define VP_ASAN 1
#endif
#endif

namespace vp {

// ------------------------------------------------------------------ PRNG (splitmix64)
struct Rng {
    uint64_t s;
    explicit Rng(uint64_t seed) : s(seed) {}
    uint64_t next() {
        uint64_t z = (s += 0x9E3779B97F4A7C15ull);
        z = (z ^ (z >> 30)) * 0xBF58476D1CE4E5B9ull;
        z = (z ^ (z >> 27)) * 0x94D049BB133111EBull;
        return z ^ (z >> 31);
    }
    // uniform integer in [lo,hi]
    long range(long lo, long hi) { return lo + (long)(next() % (uint64_t)(hi - lo + 1)); }
    double unit() { return (double)(next() >> 11) * (1.0 / 9007199254740992.0); }   // [0,1)
    double real(double lo, double hi) { return lo + (hi - lo) * unit(); }
};

inline uint64_t hash_str(const char* s, uint64_t h = 0xcbf29ce484222325ull) {
    for (; *s; ++s) { h ^= (unsigned char)*s; h *= 0x100000001b3ull; }
    return h;
}
inline uint64_t hash_bytes(const void* p, size_t n, uint64_t h = 0xcbf29ce484222325ull) {
    const unsigned char* b = (const unsigned char*)p;
    for (size_t i = 0; i < n; ++i) { h ^= b[i]; h *= 0x100000001b3ull; }
    return h;
}

// optimisation barrier: after this the compiler knows nothing about the bytes at p
inline void launder(void* p) { asm volatile("" : : "r"(p) : "memory"); }
template <class T> inline T opaque(T v) { asm volatile("" : "+m"(v)); return v; }

// ------------------------------------------------------------------ type helpers
template <class T> struct is_cplx : std::false_type {};
template <class T> struct is_cplx<std::complex<T>> : std::true_type {};
template <class T> struct real_of { using type = T; };
template <class T> struct real_of<std::complex<T>> { using type = T; };
template <class T> using real_t = typename real_of<T>::type;

template <class T> inline const char* tname();
template <> inline const char* tname<float>() { return "f32"; }
template <> inline const char* tname<double>() { return "f64"; }
template <> inline const char* tname<int>() { return "i32"; }
template <> inline const char* tname<long>() { return "i64"; }
template <> inline const char* tname<long long>() { return "ll"; }
template <> inline const char* tname<unsigned>() { return "u32"; }
template <> inline const char* tname<unsigned long>() { return "u64"; }
template <> inline const char* tname<short>() { return "i16"; }
template <> inline const char* tname<signed char>() { return "i8"; }
template <> inline const char* tname<unsigned char>() { return "u8"; }
template <> inline const char* tname<bool>() { return "bool"; }
template <> inline const char* tname<std::complex<float>>() { return "c32"; }
template <> inline const char* tname<std::complex<double>>() { return "c64"; }

// bitwise equality; any NaN equals any NaN when nan_eq
template <class T> inline bool same_bits(const T& a, const T& b) { return std::memcmp(&a, &b, sizeof(T)) == 0; }
template <class T> inline typename std::enable_if<std::is_floating_point<T>::value, bool>::type
same_val(const T& a, const T& b) { if (a != a && b != b) return true; return same_bits(a, b); }
template <class T> inline typename std::enable_if<std::is_integral<T>::value, bool>::type
same_val(const T& a, const T& b) { return a == b; }
template <class T> inline bool same_val(const std::complex<T>& a, const std::complex<T>& b) {
    return same_val(a.real(), b.real()) && same_val(a.imag(), b.imag());
}

// numeric equality: like same_val but +0 == -0 (results of sums of products, where the sign of a
// zero legitimately depends on the summation order / FMA contraction)
template <class T> inline typename std::enable_if<std::is_floating_point<T>::value, bool>::type
num_eq(const T& a, const T& b) { if (a != a && b != b) return true; return a == b; }
template <class T> inline typename std::enable_if<std::is_integral<T>::value, bool>::type
num_eq(const T& a, const T& b) { return a == b; }
template <class T> inline bool num_eq(const std::complex<T>& a, const std::complex<T>& b) {
    return num_eq(a.real(), b.real()) && num_eq(a.imag(), b.imag());
}

// printable form of a value (into a small static-free std::string)
template <class T> inline typename std::enable_if<std::is_floating_point<T>::value, std::string>::type
vstr(T v) { char b[64]; snprintf(b, sizeof b, "%.9g(%a)", (double)v, (double)v); return b; }
template <class T> inline typename std::enable_if<std::is_integral<T>::value, std::string>::type
vstr(T v) { char b[48]; snprintf(b, sizeof b, "%lld", (long long)v); return b; }
template <class T> inline std::string vstr(const std::complex<T>& v) { return "(" + vstr(v.real()) + "," + vstr(v.imag()) + ")"; }

// ------------------------------------------------------------------ paint / canary patterns
// A value that no small-integer / unique-id computation can produce.
template <class T> inline typename std::enable_if<std::is_floating_point<T>::value, T>::type
paint_value() {   // quiet NaN with a recognisable payload
    T v; if (sizeof(T) == 4) { uint32_t b = 0x7fc5a5a5u; std::memcpy(&v, &b, 4); } else { uint64_t b = 0x7ff85a5a5a5a5a5aull; std::memcpy(&v, &b, 8); }
    return v;
}
template <class T> inline typename std::enable_if<std::is_integral<T>::value, T>::type
paint_value() { uint64_t b = 0x5a5a5a5a5a5a5a5aull; T v; std::memcpy(&v, &b, sizeof(T)); return v; }
template <class T> inline typename std::enable_if<is_cplx<T>::value, T>::type
paint_value() { return T(paint_value<real_t<T>>(), paint_value<real_t<T>>()); }
template <class T> inline void paint(T* p, size_t n) { T v = paint_value<T>(); for (size_t i = 0; i < n; ++i) std::memcpy(p + i, &v, sizeof(T)); launder(p); }
template <class T> inline bool is_paint(const T& x) { T v = paint_value<T>(); return std::memcmp(&x, &v, sizeof(T)) == 0; }

// overwrite ~48KB of stack below the caller so that "unwritten" temporaries inside the
// library cannot accidentally hold the right value left over from a previous call
__attribute__((noinline)) inline void scrub_stack() {
    volatile unsigned char junk[49152];
    for (size_t i = 0; i < sizeof junk; i += 1) junk[i] = 0x5a;
    asm volatile("" : : "r"(junk) : "memory");
}

// ------------------------------------------------------------------ context / events
struct Ctx {
    const char* key = "";
    uint64_t seed = 0;
    long compared = 0;      // element comparisons made
    long bad = 0;           // comparisons that failed
    long checks = 0;        // non-element checks (frames, guards, structure)
    long guard_words = 0;   // canary/pre-image words verified
    long sub = 0;           // sub-executions (runtime-enumerated inputs) driven through this case
    long allocs = 0;        // allocations observed while a library call was in flight
    std::string mode;       // diagnosed failure mode of the first failure
    std::string first_bad;  // human-readable witness
    std::string status = "ok";
    uint64_t digest = 0xcbf29ce484222325ull;
    bool nontrivial = false;
    double max_ratio = 0;   // max err/bound over bounded comparisons
    std::map<std::string, long> notes;
    std::map<std::string, long> routes;
    std::string info;       // free-form, e.g. sample input

    Rng rng(uint64_t stream = 0) const { return Rng(hash_str(key) ^ (seed * 0x9E3779B97F4A7C15ull) ^ (stream * 0xD1B54A32D192ED03ull)); }

    void fail(const std::string& m, const std::string& witness) {
        ++bad;
        if (mode.empty()) { mode = m; first_bad = witness; }
    }
    void check(bool ok, const char* m, const std::string& witness = "") { ++checks; if (!ok) fail(m, witness); }

    // result digest for the cross-configuration monitor (C06).  Sign and payload of a NaN produced by arithmetic are not specified (x86 keeps
    // the payload of whichever operand the compiler happened to put first), so every NaN is canonicalised before hashing.  The sign of a zero that results from a
    // sum of products depends on the order of the terms (complex products under clang vs gcc), so zeros are canonicalised too: the sign of zero is
    // judged by each case's own oracle (bitwise where the operation is exact), not by the cross-configuration digest.
    template <class T> typename std::enable_if<!std::is_floating_point<T>::value>::type digest_add(const T* p, size_t n) { digest = hash_bytes(p, n * sizeof(T), digest); }
    template <class T> typename std::enable_if<std::is_floating_point<T>::value>::type digest_add(const T* p, size_t n) {
        for (size_t i = 0; i < n; ++i) { T v = p[i]; if (v != v) v = std::numeric_limits<T>::quiet_NaN(); if (v == T(0)) v = T(0); digest = hash_bytes(&v, sizeof(T), digest); }
    }
    template <class T> void digest_add(const std::complex<T>* p, size_t n) { digest_add(reinterpret_cast<const T*>(p), 2 * n); }

    // exact (bitwise, NaN==NaN) comparison of one element
    template <class T> bool eq(const T& got, const T& want, const char* what, long idx, const char* m = "mismatch") {
        ++compared;
        if (same_val(got, want)) return true;
        ++bad;
        if (mode.empty()) {
            mode = m;
            first_bad = std::string(what) + "[" + std::to_string(idx) + "] got " + vstr(got) + " want " + vstr(want);
        }
        return false;
    }
    // bounded comparison |got-want| <= bound (NaN/inf in got is a failure unless want is the same)
    template <class T> bool near(T got, long double want, long double bound, const char* what, long idx, const char* m = "bound-exceeded") {
        ++compared;
        long double err = fabsl((long double)got - want);
        bool ok = (err <= bound) && (got == got);
        if (bound > 0) { double r = (double)(err / bound); if (r > max_ratio || r != r) max_ratio = (r != r) ? 1e300 : r; }
        else if (err > 0 || got != got) max_ratio = 1e300;
        if (ok) return true;
        ++bad;
        if (mode.empty()) {
            mode = m;
            char b[256]; snprintf(b, sizeof b, "%s[%ld] got %.17Lg want %.17Lg err %.3Lg bound %.3Lg", what, idx, (long double)got, want, err, bound);
            first_bad = b;
        }
        return false;
    }
    template <class T> void eq_array(const T* got, const T* want, size_t n, const char* what, const char* m = "mismatch") {
        for (size_t i = 0; i < n; ++i) eq(got[i], want[i], what, (long)i, m);
    }
    // numeric equality (+0 == -0), for arithmetic results in the exact regime
    template <class T> bool eqn(const T& got, const T& want, const char* what, long idx, const char* m = "mismatch") {
        ++compared;
        if (num_eq(got, want)) return true;
        ++bad;
        if (mode.empty()) {
            mode = m;
            first_bad = std::string(what) + "[" + std::to_string(idx) + "] got " + vstr(got) + " want " + vstr(want);
        }
        return false;
    }
    template <class T> void eqn_array(const T* got, const T* want, size_t n, const char* what, const char* m = "mismatch") {
        for (size_t i = 0; i < n; ++i) eqn(got[i], want[i], what, (long)i, m);
    }
};

// ------------------------------------------------------------------ in-library flag + allocation monitor
struct Globals {
    volatile int in_lib = 0;
    volatile long allocs = 0;
    const char* current_key = "";
    int out_fd = -1;
    std::map<std::string, long>* routes = nullptr;
};
inline Globals& G() { static Globals g; return g; }

// RAII: "a library operation is in flight"
struct InLib {
    InLib() { G().in_lib = 1; }
    ~InLib() { G().in_lib = 0; }
};
// run a statement as a library call: stack scrubbed, allocation monitor armed
#define VP_LIB(...) do { ::vp::scrub_stack(); { ::vp::InLib vp_inlib_; __VA_ARGS__; } } while (0)

// ------------------------------------------------------------------ frames (canaries around an owned object)
// ------------------------------------------------------------------ guard pages
// A buffer of exactly `bytes` bytes placed flush against an inaccessible page.
// tail=true : [ ... slack | buffer ][PROT_NONE]   (catches over-read/over-write)
// tail=false: [PROT_NONE][ buffer | slack ... ]    (catches under-run)
// `misalign` (bytes) shifts the buffer away from the natural 64-byte alignment; with
// tail=true the END of the buffer stays flush with the guard page only when misalign==0,
// therefore for tail placement the buffer END is kept flush and the START alignment is
// whatever (size mod 64) gives; an extra `misalign` moves the whole buffer down (leaving
// `misalign` readable slack bytes that are painted and verified as canaries).
struct Guard {
    unsigned char* base = nullptr; size_t maplen = 0;
    unsigned char* buf = nullptr; size_t bytes = 0;
    unsigned char* slack_lo = nullptr; size_t slack_n = 0;   // painted slack between buffer and guard
    static size_t page() { static size_t p = (size_t)sysconf(_SC_PAGESIZE); return p; }
    Guard(size_t nbytes, bool tail, size_t misalign) {
        size_t pg = page();
        size_t body = ((nbytes + misalign + pg - 1) / pg + 1) * pg;
        maplen = body + 2 * pg;
        base = (unsigned char*)mmap(nullptr, maplen, PROT_READ | PROT_WRITE, MAP_PRIVATE | MAP_ANONYMOUS, -1, 0);
        if (base == MAP_FAILED) { perror("mmap"); _exit(3); }
        std::memset(base, 0xC3, maplen);
        mprotect(base, pg, PROT_NONE);
        mprotect(base + pg + body, pg, PROT_NONE);
        bytes = nbytes;
        if (tail) { buf = base + pg + body - nbytes - misalign; slack_lo = buf + nbytes; slack_n = misalign; }
        else      { buf = base + pg + misalign; slack_lo = base + pg; slack_n = misalign; }
    }
    ~Guard() { if (base) munmap(base, maplen); }
    Guard(const Guard&) = delete; Guard& operator=(const Guard&) = delete;
    template <class T> T* ptr() { return (T*)buf; }
    // verify slack canaries and a window of 256 bytes on the open side
    long verify(Ctx& c, const char* what) {
        long changed = 0;
        for (size_t i = 0; i < slack_n; ++i) if (slack_lo[i] != 0xC3) ++changed;
        size_t pg = page();
        // open side window
        unsigned char* lo = base + pg; unsigned char* hi = base + maplen - pg;
        for (unsigned char* p = (buf - 256 < lo ? lo : buf - 256); p < buf; ++p) if (!(p >= slack_lo && p < slack_lo + slack_n) && *p != 0xC3) ++changed;
        for (unsigned char* p = buf + bytes; p < hi && p < buf + bytes + 256; ++p) if (!(p >= slack_lo && p < slack_lo + slack_n) && *p != 0xC3) ++changed;
        c.guard_words += (long)((slack_n + 512) / 8);
        ++c.checks;
        if (changed) c.fail("guard-slack-changed", std::string(what) + ": " + std::to_string(changed) + " bytes outside the mapped buffer changed");
        return changed;
    }
};

#ifndef VP_GUARD_OPERANDS
// Raw aligned buffer [PRE | object | POST]; the object is placement-constructed.  The pads
// are painted with a byte pattern and verified after the operation has returned.
template <class Obj, size_t PAD = 256>
struct Framed {
    alignas(64) unsigned char raw[PAD + sizeof(Obj) + PAD + 64];
    Obj* obj;
    Framed() {
        std::memset(raw, 0xC3, sizeof raw);
        static_assert(PAD % 64 == 0, "pad keeps the object's alignment");
        obj = new (raw + PAD) Obj;
        launder(raw);
    }
    ~Framed() { obj->~Obj(); }
    Obj& operator*() { return *obj; }
    Obj* operator->() { return obj; }
    // number of canary bytes that changed; records a failure in c
    long verify(Ctx& c, const char* what) {
        long changed = 0; long first = -1;
        for (size_t i = 0; i < PAD; ++i) if (raw[i] != 0xC3) { ++changed; if (first < 0) first = (long)i - (long)PAD; }
        for (size_t i = PAD + sizeof(Obj); i < sizeof raw; ++i) if (raw[i] != 0xC3) { ++changed; if (first < 0) first = (long)(i - PAD); }
        c.guard_words += (long)((sizeof raw - sizeof(Obj)) / 8);
        ++c.checks;
        if (changed) c.fail("canary-changed", std::string(what) + ": " + std::to_string(changed) + " canary bytes changed, first at byte offset " + std::to_string(first) + " relative to object (size " + std::to_string(sizeof(Obj)) + ")");
        return changed;
    }
};
#endif

// ------------------------------------------------------------------ operand placement (C07 corpus mode)
// With -DVP_GUARD_OPERANDS every tensor a driver declares with VP_OPERAND and every Framed object lives flush against an inaccessible
// page: placement 0 puts the END of the object against the page (any read or write past the object faults), placement 1 the START (any
// under-run faults); every case is executed once per placement.  Without the define the declarations are ordinary locals.
inline int& placement() { static int p = 0; return p; }
template <class Obj> struct GObj {
    Guard g; Obj* obj;
    GObj() : g(sizeof(Obj), placement() == 0, 0) { obj = new (g.buf) Obj; }
    ~GObj() { obj->~Obj(); }
    Obj& operator*() { return *obj; }
    Obj* operator->() { return obj; }
};
#define VP_UNPAREN(...) __VA_ARGS__
#ifdef VP_GUARD_OPERANDS
#define VP_OPERAND(TYPE, NAME) ::vp::GObj<VP_UNPAREN TYPE> VP_CAT(NAME, _guarded); auto& NAME = *VP_CAT(NAME, _guarded)
template <class Obj, size_t PAD = 256>
struct Framed {
    Guard g; Obj* obj; unsigned char* pad;
    Framed() : g(PAD + sizeof(Obj), placement() == 0, 0) {
        static_assert(PAD % 64 == 0, "pad keeps the object's alignment");
        if (placement() == 0) { pad = g.buf; obj = new (g.buf + PAD) Obj; } else { obj = new (g.buf) Obj; pad = g.buf + sizeof(Obj); }
        launder(g.buf);
    }
    ~Framed() { obj->~Obj(); }
    Obj& operator*() { return *obj; }
    Obj* operator->() { return obj; }
    long verify(Ctx& c, const char* what) {
        long changed = 0, first = -1;
        for (size_t i = 0; i < PAD; ++i) if (pad[i] != 0xC3) { ++changed; if (first < 0) first = (long)(pad + i - (unsigned char*)obj); }
        c.guard_words += (long)(PAD / 8); ++c.checks;
        if (changed) c.fail("canary-changed", std::string(what) + ": " + std::to_string(changed) + " canary bytes changed, first at byte offset " + std::to_string(first) + " relative to object (size " + std::to_string(sizeof(Obj)) + ")");
        return changed;
    }
};
#else
#define VP_OPERAND(TYPE, NAME) VP_UNPAREN TYPE NAME
#endif

// ------------------------------------------------------------------ value regimes
// small integers in [-r, r] (exact in every floating type and summation order)
template <class T> inline typename std::enable_if<!is_cplx<T>::value>::type
fill_small(T* p, size_t n, Rng& g, int r = 7) { for (size_t i = 0; i < n; ++i) p[i] = (T)g.range(-r, r); launder(p); }
template <class T> inline typename std::enable_if<is_cplx<T>::value>::type
fill_small(T* p, size_t n, Rng& g, int r = 5) { for (size_t i = 0; i < n; ++i) p[i] = T((real_t<T>)g.range(-r, r), (real_t<T>)g.range(-r, r)); launder(p); }
// small non-zero integers
template <class T> inline void fill_small_nz(T* p, size_t n, Rng& g, int r = 7) {
    for (size_t i = 0; i < n; ++i) { long v = g.range(1, r); if (g.next() & 1) v = -v; p[i] = (T)v; } launder(p);
}
// unique ids: p[i] = base + i
template <class T> inline typename std::enable_if<!is_cplx<T>::value>::type
fill_unique(T* p, size_t n, long base) { for (size_t i = 0; i < n; ++i) p[i] = (T)(base + (long)i); launder(p); }
template <class T> inline typename std::enable_if<is_cplx<T>::value>::type
fill_unique(T* p, size_t n, long base) { for (size_t i = 0; i < n; ++i) p[i] = T((real_t<T>)(base + (long)i), (real_t<T>)(-(base + (long)i) - 1)); launder(p); }
// generic reals in [-1,1] (rounding regime)
template <class T> inline typename std::enable_if<!is_cplx<T>::value>::type
fill_real(T* p, size_t n, Rng& g, double lo = -1, double hi = 1) { for (size_t i = 0; i < n; ++i) p[i] = (T)g.real(lo, hi); launder(p); }
template <class T> inline typename std::enable_if<is_cplx<T>::value>::type
fill_real(T* p, size_t n, Rng& g, double lo = -1, double hi = 1) { for (size_t i = 0; i < n; ++i) p[i] = T((real_t<T>)g.real(lo, hi), (real_t<T>)g.real(lo, hi)); launder(p); }

template <class T> inline long double unit_roundoff() { return (long double)std::numeric_limits<real_t<T>>::epsilon() / 2; }

// wrap-around arithmetic for the integer reference (no UB in the model)
template <class T, bool I = std::is_integral<T>::value> struct Arith {
    static T mul(T a, T b) { return a * b; }
    static T add(T a, T b) { return a + b; }
    static T sub(T a, T b) { return a - b; }
    static T neg(T a) { return -a; }
};
template <class T> struct Arith<T, true> {
    using U = typename std::make_unsigned<T>::type;
    static T mul(T a, T b) { return (T)((U)a * (U)b); }
    static T add(T a, T b) { return (T)((U)a + (U)b); }
    static T sub(T a, T b) { return (T)((U)a - (U)b); }
    static T neg(T a) { return (T)((U)0 - (U)a); }
};

// number of distinct values in an array (non-triviality witness)
template <class T> inline long distinct_count(const T* p, size_t n, long cap = 3) {
    long d = 0; std::vector<T> seen;
    for (size_t i = 0; i < n && d < cap; ++i) { bool f = false; for (auto& s : seen) if (same_bits(s, p[i])) { f = true; break; } if (!f) { seen.push_back(p[i]); ++d; } }
    return d;
}

// ------------------------------------------------------------------ case registry
typedef void (*CaseFn)(Ctx&);
struct CaseEntry { const char* key; CaseFn fn; };
inline std::vector<CaseEntry>& registry() { static std::vector<CaseEntry> r; return r; }
struct Registrar { Registrar(const char* k, CaseFn f) { registry().push_back({k, f}); } };
#define VP_CAT2(a, b) a##b
#define VP_CAT(a, b) VP_CAT2(a, b)
#define VP_CASE(key, ...) static ::vp::Registrar VP_CAT(vp_reg_, __COUNTER__)(key, (__VA_ARGS__))

// ------------------------------------------------------------------ JSON output
inline void json_escape(std::string& o, const std::string& s) {
    for (unsigned char ch : s) {
        if (ch == '"' || ch == '\\') { o += '\\'; o += (char)ch; }
        else if (ch < 0x20) { char b[8]; snprintf(b, sizeof b, "\\u%04x", ch); o += b; }
        else o += (char)ch;
    }
}
inline void emit(const Ctx& c) {
    std::string o = "{\"k\":\"";
    json_escape(o, c.key);
    o += "\",\"st\":\""; json_escape(o, c.status);
    o += "\",\"n\":" + std::to_string(c.compared) + ",\"nb\":" + std::to_string(c.bad) + ",\"chk\":" + std::to_string(c.checks);
    o += ",\"gw\":" + std::to_string(c.guard_words) + ",\"sub\":" + std::to_string(c.sub) + ",\"allocs\":" + std::to_string(c.allocs);
    o += ",\"nt\":" + std::string(c.nontrivial ? "1" : "0");
    char b[64]; snprintf(b, sizeof b, "%016llx", (unsigned long long)c.digest); o += ",\"dig\":\""; o += b; o += "\"";
    if (c.max_ratio > 0) { snprintf(b, sizeof b, "%.4g", c.max_ratio); o += ",\"ratio\":"; o += b; }
    if (!c.mode.empty()) { o += ",\"mode\":\""; json_escape(o, c.mode); o += "\",\"fb\":\""; json_escape(o, c.first_bad); o += "\""; }
    if (!c.info.empty()) { o += ",\"info\":\""; json_escape(o, c.info); o += "\""; }
    if (!c.notes.empty()) { o += ",\"notes\":{"; bool f = true; for (auto& kv : c.notes) { if (!f) o += ","; f = false; o += "\""; json_escape(o, kv.first); o += "\":" + std::to_string(kv.second); } o += "}"; }
    if (!c.routes.empty()) { o += ",\"routes\":{"; bool f = true; for (auto& kv : c.routes) { if (!f) o += ","; f = false; o += "\""; json_escape(o, kv.first); o += "\":" + std::to_string(kv.second); } o += "}"; }
    o += "}\n";
    ssize_t w = write(G().out_fd, o.data(), o.size()); (void)w;
}

// ------------------------------------------------------------------ crash attribution
inline void crash_handler(int sig, siginfo_t* si, void*) {
    char b[600]; const char* k = G().current_key;
    // escape is unnecessary: keys are generated from [A-Za-z0-9_|=,.:<>+-] only
    int n = snprintf(b, sizeof b, "{\"k\":\"%s\",\"st\":\"crash\",\"n\":0,\"nb\":1,\"mode\":\"signal-%d\",\"fb\":\"signal %d at address %p (in_lib=%d, placement=%d)\"}\n",
                     k, sig, sig, si ? si->si_addr : nullptr, (int)G().in_lib, placement());
    ssize_t w = write(G().out_fd, b, (size_t)n); (void)w;
    _exit(100 + (sig & 31));
}
inline void install_handlers() {
    static unsigned char altstack[1 << 16];
    stack_t ss; ss.ss_sp = altstack; ss.ss_size = sizeof altstack; ss.ss_flags = 0; sigaltstack(&ss, nullptr);
    struct sigaction sa; std::memset(&sa, 0, sizeof sa);
    sa.sa_sigaction = crash_handler; sa.sa_flags = SA_SIGINFO | SA_ONSTACK; sigemptyset(&sa.sa_mask);
#ifndef VP_ASAN
    sigaction(SIGSEGV, &sa, nullptr); sigaction(SIGBUS, &sa, nullptr);
#endif
    sigaction(SIGFPE, &sa, nullptr); sigaction(SIGILL, &sa, nullptr);
#ifndef VP_ASAN
    sigaction(SIGABRT, &sa, nullptr);
#endif
}

// usage: driver <events-file> <seed> [--from <idx>] [--only <key>] [--list]
inline int run_main(int argc, char** argv) {
    if (argc >= 2 && std::strcmp(argv[1], "--list") == 0) { for (auto& e : registry()) printf("%s\n", e.key); return 0; }
    if (argc < 3) { fprintf(stderr, "usage: %s events seed [--from i] [--only key]\n", argv[0]); return 2; }
    uint64_t seed = strtoull(argv[2], nullptr, 10);
    size_t from = 0; const char* only = nullptr;
    for (int i = 3; i + 1 < argc; i += 2) { if (!std::strcmp(argv[i], "--from")) from = (size_t)atol(argv[i + 1]); else if (!std::strcmp(argv[i], "--only")) only = argv[i + 1]; }
    G().out_fd = open(argv[1], O_WRONLY | O_CREAT | O_APPEND, 0644);
    if (G().out_fd < 0) { perror("open events"); return 2; }
    install_handlers();
    auto& r = registry();
    for (size_t i = from; i < r.size(); ++i) {
        if (only && std::strcmp(only, r[i].key)) continue;
        Ctx c; c.key = r[i].key; c.seed = seed;
        G().current_key = c.key; G().allocs = 0; G().in_lib = 0; G().routes = &c.routes;
        // progress marker so that the runner knows which case a sanitizer abort belongs to
        { std::string m = std::string("{\"k\":\"") + c.key + "\",\"st\":\"begin\",\"idx\":" + std::to_string(i) + "}\n"; ssize_t w = write(G().out_fd, m.data(), m.size()); (void)w; }
        try {
            r[i].fn(c);
#ifdef VP_GUARD_OPERANDS
            placement() = 1; r[i].fn(c); placement() = 0;
#endif
        }
        catch (const std::exception& e) { G().in_lib = 0; c.status = "exc"; c.fail("exception", std::string("uncaught std::exception: ") + e.what()); }
        catch (...) { G().in_lib = 0; c.status = "exc"; c.fail("exception", "uncaught non-std exception"); }
        G().in_lib = 0; G().routes = nullptr;
        c.allocs += G().allocs;
        if (c.allocs && c.mode.empty()) { /* judged by the property (C07); recorded always */ }
        if (c.bad && c.status == "ok") c.status = "bad";
        emit(c);
    }
    close(G().out_fd);
    return 0;
}

} // namespace vp

// ------------------------------------------------------------------ route hooks (witnesses only)
#ifdef FASTOR_VERIF_HOOKS
namespace Fastor { namespace verif {
    void route(const char* name);
    void route(const char* name, long v);
}}
#endif

#ifdef VP_MAIN
// ---- definitions that must exist exactly once per executable
#ifdef FASTOR_VERIF_HOOKS
namespace Fastor { namespace verif {
    void route(const char* name) { auto* r = ::vp::G().routes; if (r) { int s = ::vp::G().in_lib; ::vp::G().in_lib = 0; ++(*r)[name]; ::vp::G().in_lib = s; } }
    void route(const char* name, long v) { auto* r = ::vp::G().routes; if (r) { int s = ::vp::G().in_lib; ::vp::G().in_lib = 0; ++(*r)[std::string(name) + "=" + std::to_string(v)]; ::vp::G().in_lib = s; } }
}}
#endif

#if !defined(VP_ASAN) && !defined(VP_NO_ALLOC_MONITOR)
// M5: every form of operator new/delete, plus the malloc family (glibc __libc_* back ends)
extern "C" {
    void* __libc_malloc(size_t); void __libc_free(void*); void* __libc_calloc(size_t, size_t);
    void* __libc_realloc(void*, size_t); void* __libc_memalign(size_t, size_t);
}
static inline void vp_count_alloc() { if (::vp::G().in_lib) ++::vp::G().allocs; }
extern "C" {
    void* malloc(size_t n) { vp_count_alloc(); return __libc_malloc(n); }
    void free(void* p) { __libc_free(p); }
    void* calloc(size_t a, size_t b) { vp_count_alloc(); return __libc_calloc(a, b); }
    void* realloc(void* p, size_t n) { vp_count_alloc(); return __libc_realloc(p, n); }
    void* memalign(size_t a, size_t n) { vp_count_alloc(); return __libc_memalign(a, n); }
    void* aligned_alloc(size_t a, size_t n) { vp_count_alloc(); return __libc_memalign(a, n); }
    int posix_memalign(void** out, size_t a, size_t n) { vp_count_alloc(); void* p = __libc_memalign(a, n); if (!p) return 12; *out = p; return 0; }
}
void* operator new(size_t n) { vp_count_alloc(); void* p = __libc_malloc(n ? n : 1); if (!p) throw std::bad_alloc(); return p; }
void* operator new[](size_t n) { vp_count_alloc(); void* p = __libc_malloc(n ? n : 1); if (!p) throw std::bad_alloc(); return p; }
void* operator new(size_t n, const std::nothrow_t&) noexcept { vp_count_alloc(); return __libc_malloc(n ? n : 1); }
void* operator new[](size_t n, const std::nothrow_t&) noexcept { vp_count_alloc(); return __libc_malloc(n ? n : 1); }
void operator delete(void* p) noexcept { __libc_free(p); }
void operator delete[](void* p) noexcept { __libc_free(p); }
void operator delete(void* p, size_t) noexcept { __libc_free(p); }
void operator delete[](void* p, size_t) noexcept { __libc_free(p); }
#if __cplusplus >= 201703L
void* operator new(size_t n, std::align_val_t a) { vp_count_alloc(); void* p = __libc_memalign((size_t)a, n ? n : 1); if (!p) throw std::bad_alloc(); return p; }
void* operator new[](size_t n, std::align_val_t a) { vp_count_alloc(); void* p = __libc_memalign((size_t)a, n ? n : 1); if (!p) throw std::bad_alloc(); return p; }
void operator delete(void* p, std::align_val_t) noexcept { __libc_free(p); }
void operator delete[](void* p, std::align_val_t) noexcept { __libc_free(p); }
void operator delete(void* p, size_t, std::align_val_t) noexcept { __libc_free(p); }
void operator delete[](void* p, size_t, std::align_val_t) noexcept { __libc_free(p); }
#endif
#endif // alloc monitor

int main(int argc, char** argv) { return ::vp::run_main(argc, argv); }
#endif // VP_MAIN

#endif // VP_H
