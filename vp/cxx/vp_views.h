// shared model of Fastor's range conventions (used by C04, C05, C18, C19, C20)
#ifndef VP_VIEWS_H
#define VP_VIEWS_H
#include "vp.h"

namespace vp { namespace vw {
using namespace Fastor;

// one axis range: encoded triple handed to the library and its normalised meaning
struct R1 { int F, L, S; int f, l, s; int m; int enc; };

inline int extent(int f, int l, int s) { int r = l - f; return r % s == 0 ? r / s : r / s + 1; }

// all admissible (first,last,step) for an axis of extent N whose normalised extent is m (m<0: any),
// in the positive encoding (enc 0), last-relative end (enc 1) and both-negative (enc 2) encodings
inline void enum_ranges(int N, int m, std::vector<R1>& out, bool encodings = true, int max_step = -1) {
    for (int s = 1; s <= (max_step > 0 ? max_step : N); ++s)
        for (int f = 0; f < N; ++f)
            for (int l = f + 1; l <= N; ++l) {
                int e = extent(f, l, s);
                if (m >= 0 && e != m) continue;
                out.push_back({ f, l, s, f, l, s, e, 0 });
                if (!encodings) continue;
                out.push_back({ f, l - N - 1, s, f, l, s, e, 1 });
                out.push_back({ f - N - 1, l - N - 1, s, f, l, s, e, 2 });
            }
}
inline std::string show(const R1& r) { char b[96]; snprintf(b, sizeof b, "seq(%d,%d,%d)=[%d:%d:%d]", r.F, r.L, r.S, r.f, r.l, r.s); return b; }

// flat offsets selected by a list of per-axis ranges on a row-major parent
inline void offsets(const std::vector<int>& dims, const std::vector<R1>& rs, std::vector<int>& out) {
    out.clear();
    std::vector<int> idx(rs.size(), 0);
    size_t total = 1; for (auto& r : rs) total *= (size_t)r.m;
    for (size_t k = 0; k < total; ++k) {
        int off = 0; for (size_t n = 0; n < rs.size(); ++n) off = off * dims[n] + rs[n].f + idx[n] * rs[n].s;
        out.push_back(off);
        for (int n = (int)rs.size() - 1; n >= 0; --n) { if (++idx[n] < rs[n].m) break; idx[n] = 0; }
    }
}

template <class T> inline void cmp_pick(Ctx& c, const T* got, const T* parent, const std::vector<int>& offs, const char* what, const std::string& desc, long base) {
    c.digest_add(got, offs.size());
    for (size_t j = 0; j < offs.size(); ++j) {
        ++c.compared;
        if (same_val(got[j], parent[offs[j]])) continue;
        ++c.bad;
        if (c.mode.empty()) { c.mode = "wrong-element-selected"; c.first_bad = std::string(what) + " " + desc + " element " + std::to_string(j) + " got " + vstr(got[j]) + " (parent offset " + std::to_string((long)std::real(got[j]) - base) + ") want parent offset " + std::to_string(offs[j]); }
    }
}
}} // namespace
#endif
