// C07 -- no operation touches memory outside its operands; wrapped external buffers; bounds checks; no allocation
#ifndef VP_C07_H
#define VP_C07_H
#include "vp_views.h"
#include "vp_c05.h"
#include "vp_la.h"
#include <cstdlib>

namespace vp { namespace c07 {
using namespace Fastor; using namespace vp::vw;

// storage placements for wrapped buffers: guard pages (head/tail flush, byte misalignment) or an exact-size heap block (ASan red zones)
struct Buf {
    Guard* g = nullptr; void* heap = nullptr; void* p = nullptr;
    Buf(size_t bytes, int placement, size_t mis) {
        if (placement == 2) { heap = ::operator new(bytes ? bytes : 1); p = heap; std::memset(p, 0, bytes); }
        else { g = new Guard(bytes, placement == 1, placement == 1 ? 0 : mis); p = g->buf; }
    }
    ~Buf() { if (g) delete g; if (heap) ::operator delete(heap); }
    void verify(Ctx& c, const char* w) { if (g) g->verify(c, w); }
    Buf(const Buf&) = delete;
};

#ifdef VP_ASAN
static const int PLACEMENTS[] = { 2 };
#else
static const int PLACEMENTS[] = { 0, 1 };
#endif

// element-wise chains, reductions and view access on 1-D maps of a size that is not a multiple of any vector width
template <class T, size_t N>
void map1d(Ctx& c) {
    Rng g = c.rng();
    T ra[N], rb[N];
#ifdef VP_ASAN
    const int placements[] = { 2 };
#else
    const int placements[] = { 0, 1 };
#endif
    for (int pl : placements) for (size_t mis = 0; mis < 64; mis += sizeof(T)) {
        if (pl != 0 && mis) break;
        Buf ba(sizeof(T) * N, pl, mis), bb(sizeof(T) * N, pl, mis), br(sizeof(T) * N, pl, mis);
        TensorMap<T, N> a((T*)ba.p), b((T*)bb.p), r((T*)br.p);
        c05::fill_parent(ra, N, g); c05::fill_parent(rb, N, g); std::memcpy(a.data(), ra, sizeof ra); std::memcpy(b.data(), rb, sizeof rb); launder(a.data()); launder(b.data());
        VP_LIB(r = a + b * T(2)); for (size_t i = 0; i < N; ++i) c.eq(r.data()[i], (T)(ra[i] + rb[i] * T(2)), "r=a+b*2 (maps)", (long)i);
        VP_LIB(r -= a); for (size_t i = 0; i < N; ++i) c.eq(r.data()[i], (T)(rb[i] * T(2)), "r-=a (maps)", (long)i);
        VP_LIB(r = abs(a) - b); for (size_t i = 0; i < N; ++i) c.eq(r.data()[i], (T)(std::abs(ra[i]) - rb[i]), "r=abs(a)-b (maps)", (long)i);
        { T s; VP_LIB(s = sum(a)); T w = T(0); for (size_t i = 0; i < N; ++i) w += ra[i]; c.eqn(s, w, "sum(map)", 0); }
        { T s; VP_LIB(s = inner(a, b)); T w = T(0); for (size_t i = 0; i < N; ++i) w += ra[i] * rb[i]; c.eqn(s, w, "inner(map,map)", 0); }
        { T s; VP_LIB(s = min(a)); T w = ra[0]; for (size_t i = 1; i < N; ++i) w = std::min(w, ra[i]); c.eqn(s, w, "min(map)", 0); }
        { T s; VP_LIB(s = max(a)); T w = ra[0]; for (size_t i = 1; i < N; ++i) w = std::max(w, ra[i]); c.eqn(s, w, "max(map)", 0); }
        // member functions with their own vector loops (fill, zeros, iota, reverse, sum, product) on the wrapped storage
        VP_LIB(r.fill(T(5))); for (size_t i = 0; i < N; ++i) c.eq(r.data()[i], T(5), "map.fill(5)", (long)i);
        VP_LIB(r.zeros()); for (size_t i = 0; i < N; ++i) c.eq(r.data()[i], T(0), "map.zeros()", (long)i);
        VP_LIB(r.ones()); for (size_t i = 0; i < N; ++i) c.eq(r.data()[i], T(1), "map.ones()", (long)i);
        VP_LIB(r.iota(T(2))); for (size_t i = 0; i < N; ++i) c.eq(r.data()[i], (T)(T(2) + T(i)), "map.iota(2)", (long)i);
        VP_LIB(r.arange(T(1))); for (size_t i = 0; i < N; ++i) c.eq(r.data()[i], (T)(T(1) + T(i)), "map.arange(1)", (long)i);
        std::memcpy(r.data(), ra, sizeof ra); launder(r.data());
        VP_LIB(r.reverse()); for (size_t i = 0; i < N; ++i) c.eq(r.data()[i], ra[N - 1 - i], "map.reverse()", (long)i);
        { T s; VP_LIB(s = a.sum()); T w = T(0); for (size_t i = 0; i < N; ++i) w += ra[i]; c.eqn(s, w, "map.sum()", 0); }
        { Tensor<T, N> sm; for (size_t i = 0; i < N; ++i) sm.data()[i] = (T)(1 + (i % 2)); std::memcpy(r.data(), sm.data(), sizeof(T) * N); launder(r.data());
          T s; VP_LIB(s = r.product()); T w = T(1); for (size_t i = 0; i < N; ++i) w *= sm.data()[i]; if (N <= 20) c.eqn(s, w, "map.product()", 0); }
        // slices of maps, every step, both ends
        for (int st = 1; st <= 3 && (size_t)st <= N; ++st) {
            std::memcpy(r.data(), rb, sizeof rb); launder(r.data());
            VP_LIB(r(seq(0, (int)N, st)) += T(3));
            for (size_t i = 0; i < N; ++i) c.eq(r.data()[i], (T)(i % st == 0 ? rb[i] + T(3) : rb[i]), "r(seq)+=3 (map)", (long)i);
            { T acc = T(0); for (size_t i = 0; i < N; i += st) acc += ra[i]; T got; VP_LIB(got = sum(a(seq(0, (int)N, st)))); c.eqn(got, acc, "sum(map(seq))", (long)st); }
            if (N >= 2) { std::memcpy(r.data(), rb, sizeof rb); launder(r.data()); VP_LIB(r(seq((int)N - 1, (int)N)) = T(77)); c.eq(r.data()[N - 1], T(77), "r(last)=77", (long)N - 1); }
        }
        ba.verify(c, "a"); bb.verify(c, "b"); br.verify(c, "r");
        ++c.sub;
    }
    c.nontrivial = true;
}

// complex element types have their own vector classes with split real/imaginary loads and stores (aligned and unaligned variants each):
// element-wise chains, fill, copy and reductions on wrapped buffers at every element misalignment
template <class T, size_t N>
void map1d_cplx(Ctx& c) {
    Rng g = c.rng();
    T ra[N], rb[N];
    for (int pl : PLACEMENTS) for (size_t mis = 0; mis < 64; mis += sizeof(T) / 2) {
        if (pl != 0 && mis) break;
        Buf ba(sizeof(T) * N, pl, mis), bb(sizeof(T) * N, pl, mis), br(sizeof(T) * N, pl, mis);
        TensorMap<T, N> a((T*)ba.p), b((T*)bb.p), r((T*)br.p);
        fill_small(ra, N, g, 5); fill_small(rb, N, g, 5); std::memcpy(a.data(), ra, sizeof ra); std::memcpy(b.data(), rb, sizeof rb); launder(a.data()); launder(b.data());
        VP_LIB(r = a + b); for (size_t i = 0; i < N; ++i) c.eq(r.data()[i], (T)(ra[i] + rb[i]), "r=a+b (complex maps)", (long)i);
        VP_LIB(r -= a); for (size_t i = 0; i < N; ++i) c.eq(r.data()[i], rb[i], "r-=a (complex maps)", (long)i);
        VP_LIB(r += a); for (size_t i = 0; i < N; ++i) c.eq(r.data()[i], (T)(ra[i] + rb[i]), "r+=a (complex maps)", (long)i);
        VP_LIB(r = a); for (size_t i = 0; i < N; ++i) c.eq(r.data()[i], ra[i], "r=a (complex maps)", (long)i);
        VP_LIB(r = a * b); for (size_t i = 0; i < N; ++i) c.eqn(r.data()[i], (T)(ra[i] * rb[i]), "r=a*b (complex maps)", (long)i);
        VP_LIB(r.fill(T(2, -3))); for (size_t i = 0; i < N; ++i) c.eq(r.data()[i], T(2, -3), "r.fill (complex map)", (long)i);
        VP_LIB(r.zeros()); for (size_t i = 0; i < N; ++i) c.eq(r.data()[i], T(0, 0), "r.zeros (complex map)", (long)i);
        { T s; VP_LIB(s = sum(a)); T w = T(0); for (size_t i = 0; i < N; ++i) w += ra[i]; c.eqn(s, w, "sum(complex map)", 0); }
        { Tensor<T, N> own; VP_LIB(own = a - b); for (size_t i = 0; i < N; ++i) c.eq(own.data()[i], (T)(ra[i] - rb[i]), "tensor=a-b (complex maps)", (long)i); VP_LIB(r = own); for (size_t i = 0; i < N; ++i) c.eq(r.data()[i], (T)(ra[i] - rb[i]), "map=tensor (complex)", (long)i); }
        ba.verify(c, "a"); bb.verify(c, "b"); br.verify(c, "r");
        ++c.sub;
    }
    c.nontrivial = true;
}

// rank-2 maps: transpose, matmul (operands and result wrapped), views, norm, trace-like access
template <class T, size_t M_, size_t K_, size_t N_>
void map2d(Ctx& c) {
    Rng g = c.rng();
#ifdef VP_ASAN
    const int placements[] = { 2 };
#else
    const int placements[] = { 0, 1 };
#endif
    for (int pl : placements) for (size_t mis = 0; mis < 64; mis += 2 * sizeof(T)) {
        if (pl != 0 && mis) break;
        Buf ba(sizeof(T) * M_ * K_, pl, mis), bb(sizeof(T) * K_ * N_, pl, mis), bc(sizeof(T) * M_ * N_, pl, mis), bt(sizeof(T) * M_ * K_, pl, mis);
        TensorMap<T, M_, K_> A((T*)ba.p); TensorMap<T, K_, N_> B((T*)bb.p); TensorMap<T, M_, N_> C((T*)bc.p); TensorMap<T, K_, M_> At((T*)bt.p);
        fill_small(A.data(), M_ * K_, g, 5); fill_small(B.data(), K_ * N_, g, 5); paint(C.data(), M_ * N_); paint(At.data(), M_ * K_);
        VP_LIB(C = matmul(A, B));
        for (size_t i = 0; i < M_; ++i) for (size_t j = 0; j < N_; ++j) { T s = T(0); for (size_t k = 0; k < K_; ++k) s += A.data()[i * K_ + k] * B.data()[k * N_ + j]; c.eqn(C.data()[i * N_ + j], s, "map=matmul(map,map)", (long)(i * N_ + j)); }
        VP_LIB(At = transpose(A));
        for (size_t i = 0; i < M_; ++i) for (size_t k = 0; k < K_; ++k) c.eq(At.data()[k * M_ + i], A.data()[i * K_ + k], "map=transpose(map)", (long)(i * K_ + k));
        VP_LIB(At = trans(A));
        for (size_t i = 0; i < M_; ++i) for (size_t k = 0; k < K_; ++k) c.eq(At.data()[k * M_ + i], A.data()[i * K_ + k], "map=trans(map)", (long)(i * K_ + k));
        // last row / last column views of a map
        { Tensor<T, 1, K_> row = A(M_ - 1, all); for (size_t k = 0; k < K_; ++k) c.eq(row.data()[k], A.data()[(M_ - 1) * K_ + k], "map(last,all)", (long)k); }
        { Tensor<T, M_, 1> col = A(all, K_ - 1); for (size_t i = 0; i < M_; ++i) c.eq(col.data()[i], A.data()[i * K_ + K_ - 1], "map(all,last)", (long)i); }
        { T keep = A.data()[M_ * K_ - 1]; VP_LIB(A(seq((int)M_ - 1, (int)M_), seq((int)K_ - 1, (int)K_)) += T(1)); c.eq(A.data()[M_ * K_ - 1], (T)(keep + T(1)), "map(last,last)+=1", 0); }
        ba.verify(c, "A"); bb.verify(c, "B"); bc.verify(c, "C"); bt.verify(c, "At");
        ++c.sub;
    }
    c.nontrivial = true;
}

// ------------------------------------------------------------------ owning tensors placed flush against guard pages (or in an exact heap block under ASan)
template <class Obj> struct Placed {
    Guard* g = nullptr; void* heap = nullptr; Obj* o = nullptr;
    explicit Placed(int pl) {
        if (pl == 2) { if (posix_memalign(&heap, 64, sizeof(Obj))) { perror("posix_memalign"); _exit(3); } o = new (heap) Obj; }
        else { g = new Guard(sizeof(Obj), pl == 0, 0); o = new (g->buf) Obj; }
    }
    ~Placed() { o->~Obj(); if (g) delete g; if (heap) free(heap); }
    Obj& operator*() { return *o; } Obj* operator->() { return o; }
    void verify(Ctx& c, const char* w) { if (g) g->verify(c, w); }
    Placed(const Placed&) = delete;
};

template <class T, class E = void> struct FloatOnly1 { template <size_t N> static void run(Ctx&, Tensor<T, N>&, Tensor<T, N>&, const T*) {} };
template <class T> struct FloatOnly1<T, typename std::enable_if<std::is_floating_point<T>::value>::type> {
    template <size_t N> static void run(Ctx& c, Tensor<T, N>& a, Tensor<T, N>& r, const T* ra) {
        VP_LIB(r = sqrt(abs(a))); for (size_t i = 0; i < N; ++i) c.eq(r.data()[i], (T)std::sqrt(std::abs(ra[i])), "r=sqrt(abs(a)) (placed)", (long)i);
        { T s; VP_LIB(s = norm(a)); long double w = 0; for (size_t i = 0; i < N; ++i) w += (long double)ra[i] * ra[i]; c.near(s, sqrtl(w), 4 * (N + 2) * (long double)std::numeric_limits<T>::epsilon() * sqrtl(w), "norm(placed)", 0); }
        { Tensor<double, N> d; VP_LIB(d = a.template cast<double>()); for (size_t i = 0; i < N; ++i) c.eq(d.data()[i], (double)ra[i], "a.cast<double>()", (long)i); }
    }
};

// every member function and reduction with its own vector loop, on owning 1-D tensors of every size class
template <class T, size_t N>
void own1d(Ctx& c) {
    Rng g = c.rng(); T ra[N], rb[N];
    for (int pl : PLACEMENTS) {
        Placed<Tensor<T, N>> pa(pl), pb(pl), pr(pl); Tensor<T, N>& a = *pa; Tensor<T, N>& b = *pb; Tensor<T, N>& r = *pr;
        c05::fill_parent(ra, N, g); c05::fill_parent(rb, N, g); std::memcpy(a.data(), ra, sizeof ra); std::memcpy(b.data(), rb, sizeof rb); launder(a.data()); launder(b.data());
        VP_LIB(r = a + b * T(2)); for (size_t i = 0; i < N; ++i) c.eq(r.data()[i], (T)(ra[i] + rb[i] * T(2)), "r=a+b*2 (placed)", (long)i);
        VP_LIB(r -= a); for (size_t i = 0; i < N; ++i) c.eq(r.data()[i], (T)(rb[i] * T(2)), "r-=a (placed)", (long)i);
        VP_LIB(r = abs(a) - b); for (size_t i = 0; i < N; ++i) c.eq(r.data()[i], (T)(std::abs(ra[i]) - rb[i]), "r=abs(a)-b (placed)", (long)i);
        VP_LIB(r = -a); for (size_t i = 0; i < N; ++i) c.eq(r.data()[i], (T)(-ra[i]), "r=-a (placed)", (long)i);
        FloatOnly1<T>::run(c, a, r, ra);
        { T s; VP_LIB(s = sum(a)); T w = T(0); for (size_t i = 0; i < N; ++i) w += ra[i]; c.eqn(s, w, "sum(placed)", 0); }
        { T s; VP_LIB(s = a.sum()); T w = T(0); for (size_t i = 0; i < N; ++i) w += ra[i]; c.eqn(s, w, "placed.sum()", 0); }
        { T s; VP_LIB(s = inner(a, b)); T w = T(0); for (size_t i = 0; i < N; ++i) w += ra[i] * rb[i]; c.eqn(s, w, "inner(placed,placed)", 0); }
        { T s; VP_LIB(s = min(a)); T w = ra[0]; for (size_t i = 1; i < N; ++i) w = std::min(w, ra[i]); c.eqn(s, w, "min(placed)", 0); }
        { T s; VP_LIB(s = max(a)); T w = ra[0]; for (size_t i = 1; i < N; ++i) w = std::max(w, ra[i]); c.eqn(s, w, "max(placed)", 0); }
        { T s; VP_LIB(s = min(a - b)); T w = (T)(ra[0] - rb[0]); for (size_t i = 1; i < N; ++i) w = std::min(w, (T)(ra[i] - rb[i])); c.eqn(s, w, "min(placed-placed)", 0); }
        { bool e; VP_LIB(e = isequal(a, a)); c.check(e, "mismatch", "isequal(a,a)"); }
        VP_LIB(r.fill(T(5))); for (size_t i = 0; i < N; ++i) c.eq(r.data()[i], T(5), "placed.fill(5)", (long)i);
        VP_LIB(r.zeros()); for (size_t i = 0; i < N; ++i) c.eq(r.data()[i], T(0), "placed.zeros()", (long)i);
        VP_LIB(r.ones()); for (size_t i = 0; i < N; ++i) c.eq(r.data()[i], T(1), "placed.ones()", (long)i);
        VP_LIB(r.iota(T(2))); for (size_t i = 0; i < N; ++i) c.eq(r.data()[i], (T)(T(2) + T(i)), "placed.iota(2)", (long)i);
        VP_LIB(r.arange(T(1))); for (size_t i = 0; i < N; ++i) c.eq(r.data()[i], (T)(T(1) + T(i)), "placed.arange(1)", (long)i);
        VP_LIB(r.random()); VP_LIB(r.randint());
        std::memcpy(r.data(), ra, sizeof ra); launder(r.data());
        VP_LIB(r.reverse()); for (size_t i = 0; i < N; ++i) c.eq(r.data()[i], ra[N - 1 - i], "placed.reverse()", (long)i);
        { for (size_t i = 0; i < N; ++i) r.data()[i] = (T)(1 + (i % 2)); launder(r.data()); T s; VP_LIB(s = r.product()); T w = T(1); for (size_t i = 0; i < N; ++i) w *= r.data()[i]; if (N <= 20) c.eqn(s, w, "placed.product()", 0);
          T s2; VP_LIB(s2 = product(r)); if (N <= 20) c.eqn(s2, w, "product(placed)", 0); }
        // copy construction / assignment between placed objects, scalar broadcast
        VP_LIB(r = a); for (size_t i = 0; i < N; ++i) c.eq(r.data()[i], ra[i], "r=a (placed copy)", (long)i);
        VP_LIB(r = T(9)); for (size_t i = 0; i < N; ++i) c.eq(r.data()[i], T(9), "r=9 (placed)", (long)i);
        { Tensor<T, N> v; VP_LIB(v = a(seq(0, (int)N))); for (size_t i = 0; i < N; ++i) c.eq(v.data()[i], ra[i], "v=placed(seq(0,N))", (long)i); }
        { VP_LIB(r(seq(0, (int)N)) = b); for (size_t i = 0; i < N; ++i) c.eq(r.data()[i], rb[i], "placed(seq(0,N))=b", (long)i); }
        { VP_LIB(r(fseq<0, (int)N>()) = a); for (size_t i = 0; i < N; ++i) c.eq(r.data()[i], ra[i], "placed(fseq<0,N>)=a", (long)i); }
        pa.verify(c, "a"); pb.verify(c, "b"); pr.verify(c, "r"); ++c.sub;
    }
    c.nontrivial = true;
}

template <class T, size_t M, class E = void> struct Square { static void run(Ctx&, int) {} };
// square matrices: identity builders, triangular extraction, determinant family, inverse, LU, solve, QR on placed operands (values are judged by
// C10-C13/C16; here the operations only have to stay inside their operands and give finite results on a dominant matrix)
template <class T, size_t M> struct Square<T, M, typename std::enable_if<std::is_floating_point<T>::value>::type> {
    static void run(Ctx& c, int pl) {
        Rng g = c.rng(7);
        Placed<Tensor<T, M, M>> pA(pl), pX(pl), pL(pl), pU(pl); Placed<Tensor<T, M>> pb(pl), px(pl);
        Tensor<T, M, M>& A = *pA; Tensor<T, M, M>& X = *pX; Tensor<T, M, M>& L = *pL; Tensor<T, M, M>& U = *pU; Tensor<T, M>& b = *pb; Tensor<T, M>& x = *px;
        la::fill_dominant(A.data(), M, g); fill_real(b.data(), M, g);
        VP_LIB(X.eye2()); for (size_t i = 0; i < M; ++i) for (size_t j = 0; j < M; ++j) c.eq(X.data()[i * M + j], (T)(i == j), "placed.eye2()", (long)(i * M + j));
        VP_LIB(X.eye());  for (size_t i = 0; i < M; ++i) for (size_t j = 0; j < M; ++j) c.eq(X.data()[i * M + j], (T)(i == j), "placed.eye()", (long)(i * M + j));
        VP_LIB(X = tril(A)); for (size_t i = 0; i < M; ++i) for (size_t j = 0; j < M; ++j) c.eq(X.data()[i * M + j], j <= i ? A.data()[i * M + j] : T(0), "tril(placed)", (long)(i * M + j));
        VP_LIB(X = triu(A)); for (size_t i = 0; i < M; ++i) for (size_t j = 0; j < M; ++j) c.eq(X.data()[i * M + j], j >= i ? A.data()[i * M + j] : T(0), "triu(placed)", (long)(i * M + j));
        { T t; VP_LIB(t = trace(A)); long double w = 0; for (size_t i = 0; i < M; ++i) w += A.data()[i * M + i]; c.near(t, w, 8 * M * (long double)std::numeric_limits<T>::epsilon() * (fabsl(w) + 4 * M), "trace(placed)", 0); }
        { T d; VP_LIB(d = determinant(A)); c.check(d == d, "non-finite", "determinant(placed)"); T ad; VP_LIB(ad = absdet(A)); c.check(ad >= 0, "mismatch", "absdet(placed)>=0"); T ld; VP_LIB(ld = logdet(A)); c.check(ld == ld, "non-finite", "logdet(placed)"); }
        VP_LIB(X = inverse(A)); for (size_t i = 0; i < M * M; ++i) if (!(X.data()[i] == X.data()[i])) { c.fail("non-finite", "inverse(placed)"); break; } ++c.checks;
        VP_LIB(lu(A, L, U)); ++c.checks;
        VP_LIB(x = solve(A, b)); ++c.checks;
        { Placed<Tensor<T, M, M>> pQ(pl), pR(pl); VP_LIB(qr(A, *pQ, *pR)); ++c.checks; pQ.verify(c, "Q"); pR.verify(c, "R"); }
        { bool s; VP_LIB(s = issymmetric(A)); (void)s; VP_LIB(s = isorthogonal(A)); (void)s; VP_LIB(s = isuniform(A)); c.check(s, "mismatch", "isuniform(square)"); VP_LIB(s = issquare(A)); c.check(s, "mismatch", "issquare(square)"); ++c.checks; }
        pA.verify(c, "A"); pX.verify(c, "X"); pL.verify(c, "L"); pU.verify(c, "U"); pb.verify(c, "b"); px.verify(c, "x");
    }
};

// rank-2 owning tensors: transpose family, matmul in all three API forms, outer products, square-only operations
template <class T, size_t M, size_t K, size_t N>
void own2d(Ctx& c) {
    Rng g = c.rng();
    for (int pl : PLACEMENTS) {
        Placed<Tensor<T, M, K>> pA(pl); Placed<Tensor<T, K, N>> pB(pl); Placed<Tensor<T, M, N>> pC(pl); Placed<Tensor<T, K, M>> pAt(pl);
        Tensor<T, M, K>& A = *pA; Tensor<T, K, N>& B = *pB; Tensor<T, M, N>& C = *pC; Tensor<T, K, M>& At = *pAt;
        fill_small(A.data(), M * K, g, 5); fill_small(B.data(), K * N, g, 5); paint(C.data(), M * N); paint(At.data(), M * K);
        T ref[M * N]; for (size_t i = 0; i < M; ++i) for (size_t j = 0; j < N; ++j) { T s = T(0); for (size_t k = 0; k < K; ++k) s += A.data()[i * K + k] * B.data()[k * N + j]; ref[i * N + j] = s; }
        VP_LIB(C = matmul(A, B)); for (size_t i = 0; i < M * N; ++i) c.eqn(C.data()[i], ref[i], "placed=matmul(placed,placed)", (long)i);
        paint(C.data(), M * N); VP_LIB(C = A % B); for (size_t i = 0; i < M * N; ++i) c.eqn(C.data()[i], ref[i], "placed=placed%placed", (long)i);
        paint(C.data(), M * N); VP_LIB(Fastor::_matmul<T, M, K, N>(A.data(), B.data(), C.data())); for (size_t i = 0; i < M * N; ++i) c.eqn(C.data()[i], ref[i], "_matmul(placed storage)", (long)i);
        VP_LIB(At = transpose(A)); for (size_t i = 0; i < M; ++i) for (size_t k = 0; k < K; ++k) c.eq(At.data()[k * M + i], A.data()[i * K + k], "placed=transpose(placed)", (long)(i * K + k));
        paint(At.data(), M * K); VP_LIB(At = trans(A)); for (size_t i = 0; i < M; ++i) for (size_t k = 0; k < K; ++k) c.eq(At.data()[k * M + i], A.data()[i * K + k], "placed=trans(placed)", (long)(i * K + k));
        paint(At.data(), M * K); VP_LIB(Fastor::_transpose<T, M, K>(A.data(), At.data())); for (size_t i = 0; i < M; ++i) for (size_t k = 0; k < K; ++k) c.eq(At.data()[k * M + i], A.data()[i * K + k], "_transpose(placed storage)", (long)(i * K + k));
        // (a larger outer product is returned through a multi-megabyte stack temporary: the driver's stack limit, not the library's business)
        if (M * K * K * N <= 16384) { Placed<Tensor<T, M, K, K, N>> pO(pl); VP_LIB(*pO = outer(A, B)); c.eqn(pO->data()[0], (T)(A.data()[0] * B.data()[0]), "outer(placed,placed)[0]", 0); c.eqn(pO->data()[M * K * K * N - 1], (T)(A.data()[M * K - 1] * B.data()[K * N - 1]), "outer(placed,placed)[last]", 1); pO.verify(c, "outer"); }
        { Tensor<T, 1, K> row; VP_LIB(row = A(M - 1, all)); for (size_t k = 0; k < K; ++k) c.eq(row.data()[k], A.data()[(M - 1) * K + k], "placed(last,all)", (long)k); }
        { Tensor<T, M, 1> col; VP_LIB(col = A(all, K - 1)); for (size_t i = 0; i < M; ++i) c.eq(col.data()[i], A.data()[i * K + K - 1], "placed(all,last)", (long)i); }
        pA.verify(c, "A"); pB.verify(c, "B"); pC.verify(c, "C"); pAt.verify(c, "At");
        if (M == K && K == N) Square<T, M>::run(c, pl);
        ++c.sub;
    }
    c.nontrivial = true;
}

// sentinel: slice-of-map op= slice-of-map on rank-1 maps has no viable overload today (API gap, all configurations)
template <class T, size_t N> void map1d_slice_slice(Ctx& c) { alignas(64) T x[N], y[N]; for (size_t i = 0; i < N; ++i) { x[i] = (T)i; y[i] = (T)(10 * i); } TensorMap<T, N> a(x), b(y);
    b(seq(0, (int)N, 2)) += a(seq(0, (int)N, 2)); for (size_t i = 0; i < N; ++i) c.eq(y[i], (T)(i % 2 == 0 ? 11 * i : 10 * i), "map(seq)+=map(seq)", (long)i); c.nontrivial = true; }

// with runtime checks enabled an out-of-range index raises an error instead of accessing memory; the tensor sits flush against guard pages
// on both sides so that an unchecked access would fault
template <class T, size_t... D>
struct BOUNDS {
    static constexpr size_t R = sizeof...(D);
    template <class X, size_t... I> static T get(X& x, const std::vector<int>& i, std::index_sequence<I...>) { return x(i[I]...); }
    static void run(Ctx& c) {
#if FASTOR_BOUNDS_CHECK
        constexpr size_t SZ = Tensor<T, D...>::size();
        Guard gb(sizeof(T) * SZ, true, 0); TensorMap<T, D...> M(gb.ptr<T>()); Tensor<T, D...> O; fill_unique(M.data(), SZ, 100); fill_unique(O.data(), SZ, 100);
        std::vector<int> dims = { (int)D... };
        for (size_t ax = 0; ax < R; ++ax) {
            int bad[] = { dims[ax], dims[ax] + 1, -dims[ax] - 1, 1 << 20, -(1 << 20) };
            for (int b : bad) for (int which = 0; which < 2; ++which) {
                std::vector<int> idx(R, 0); idx[ax] = opaque(b);
                bool threw = false; std::string what;
                try { T v = which ? get(M, idx, std::make_index_sequence<R>()) : get(O, idx, std::make_index_sequence<R>()); (void)v; }
                catch (const std::exception& e) { threw = true; what = e.what(); }
                ++c.compared;
                if (!threw) { ++c.bad; if (c.mode.empty()) { c.mode = "out-of-range-index-not-rejected"; c.first_bad = std::string(which ? "TensorMap" : "Tensor") + " index " + std::to_string(b) + " on axis " + std::to_string(ax) + " of extent " + std::to_string(dims[ax]) + " did not raise"; } }
            }
        }
        // in-range accesses still work with checks on
        { std::vector<int> idx(R); for (size_t ax = 0; ax < R; ++ax) idx[ax] = dims[ax] - 1; c.eq(get(M, idx, std::make_index_sequence<R>()), M.data()[SZ - 1], "last element with checks on", 0); }
        gb.verify(c, "map"); c.nontrivial = true;
#else
        c.status = "na";
#endif
    }
};
}} // namespace
#endif
