// C07 -- no operation touches memory outside its operands; wrapped external buffers; bounds checks; no allocation
#ifndef VP_C07_H
#define VP_C07_H
#include "vp_views.h"
#include "vp_c05.h"

namespace vp { namespace c07 {
using namespace Fastor; using namespace vp::vw;

// storage placements for wrapped buffers: guard pages (head/tail flush, byte misalignment) or an exact-size heap block (ASan red zones)
struct Buf {
    Guard* g = nullptr; void* heap = nullptr; void* p = nullptr;
    Buf(size_t bytes, int placement, size_t mis) {
        if (placement == 2) { heap = ::operator new(bytes ? bytes : 1); p = heap; std::memset(p, 0, bytes); }
        else { g = new Guard(bytes, placement == 1, placement == 1 ? 0 : mis); p = g->buf; }
    }
    ~Buf() { if (g) delete g; if (heap) ::operator delete(heap); }
    void verify(Ctx& c, const char* w) { if (g) g->verify(c, w); }
    Buf(const Buf&) = delete;
};

// element-wise chains, reductions and view access on 1-D maps of a size that is not a multiple of any vector width
template <class T, size_t N>
void map1d(Ctx& c) {
    Rng g = c.rng();
    T ra[N], rb[N];
#ifdef VP_ASAN
    const int placements[] = { 2 };
#else
    const int placements[] = { 0, 1 };
#endif
    for (int pl : placements) for (size_t mis = 0; mis < 64; mis += sizeof(T)) {
        if (pl != 0 && mis) break;
        Buf ba(sizeof(T) * N, pl, mis), bb(sizeof(T) * N, pl, mis), br(sizeof(T) * N, pl, mis);
        TensorMap<T, N> a((T*)ba.p), b((T*)bb.p), r((T*)br.p);
        c05::fill_parent(ra, N, g); c05::fill_parent(rb, N, g); std::memcpy(a.data(), ra, sizeof ra); std::memcpy(b.data(), rb, sizeof rb); launder(a.data()); launder(b.data());
        VP_LIB(r = a + b * T(2)); for (size_t i = 0; i < N; ++i) c.eq(r.data()[i], (T)(ra[i] + rb[i] * T(2)), "r=a+b*2 (maps)", (long)i);
        VP_LIB(r -= a); for (size_t i = 0; i < N; ++i) c.eq(r.data()[i], (T)(rb[i] * T(2)), "r-=a (maps)", (long)i);
        VP_LIB(r = abs(a) - b); for (size_t i = 0; i < N; ++i) c.eq(r.data()[i], (T)(std::abs(ra[i]) - rb[i]), "r=abs(a)-b (maps)", (long)i);
        { T s; VP_LIB(s = sum(a)); T w = T(0); for (size_t i = 0; i < N; ++i) w += ra[i]; c.eqn(s, w, "sum(map)", 0); }
        { T s; VP_LIB(s = inner(a, b)); T w = T(0); for (size_t i = 0; i < N; ++i) w += ra[i] * rb[i]; c.eqn(s, w, "inner(map,map)", 0); }
        { T s; VP_LIB(s = min(a)); T w = ra[0]; for (size_t i = 1; i < N; ++i) w = std::min(w, ra[i]); c.eqn(s, w, "min(map)", 0); }
        { T s; VP_LIB(s = max(a)); T w = ra[0]; for (size_t i = 1; i < N; ++i) w = std::max(w, ra[i]); c.eqn(s, w, "max(map)", 0); }
        // slices of maps, every step, both ends
        for (int st = 1; st <= 3 && (size_t)st <= N; ++st) {
            std::memcpy(r.data(), rb, sizeof rb); launder(r.data());
            VP_LIB(r(seq(0, (int)N, st)) += T(3));
            for (size_t i = 0; i < N; ++i) c.eq(r.data()[i], (T)(i % st == 0 ? rb[i] + T(3) : rb[i]), "r(seq)+=3 (map)", (long)i);
            { T acc = T(0); for (size_t i = 0; i < N; i += st) acc += ra[i]; T got; VP_LIB(got = sum(a(seq(0, (int)N, st)))); c.eqn(got, acc, "sum(map(seq))", (long)st); }
            if (N >= 2) { std::memcpy(r.data(), rb, sizeof rb); launder(r.data()); VP_LIB(r(seq((int)N - 1, (int)N)) = T(77)); c.eq(r.data()[N - 1], T(77), "r(last)=77", (long)N - 1); }
        }
        ba.verify(c, "a"); bb.verify(c, "b"); br.verify(c, "r");
        ++c.sub;
    }
    c.nontrivial = true;
}

// rank-2 maps: transpose, matmul (operands and result wrapped), views, norm, trace-like access
template <class T, size_t M_, size_t K_, size_t N_>
void map2d(Ctx& c) {
    Rng g = c.rng();
#ifdef VP_ASAN
    const int placements[] = { 2 };
#else
    const int placements[] = { 0, 1 };
#endif
    for (int pl : placements) for (size_t mis = 0; mis < 64; mis += 2 * sizeof(T)) {
        if (pl != 0 && mis) break;
        Buf ba(sizeof(T) * M_ * K_, pl, mis), bb(sizeof(T) * K_ * N_, pl, mis), bc(sizeof(T) * M_ * N_, pl, mis), bt(sizeof(T) * M_ * K_, pl, mis);
        TensorMap<T, M_, K_> A((T*)ba.p); TensorMap<T, K_, N_> B((T*)bb.p); TensorMap<T, M_, N_> C((T*)bc.p); TensorMap<T, K_, M_> At((T*)bt.p);
        fill_small(A.data(), M_ * K_, g, 5); fill_small(B.data(), K_ * N_, g, 5); paint(C.data(), M_ * N_); paint(At.data(), M_ * K_);
        VP_LIB(C = matmul(A, B));
        for (size_t i = 0; i < M_; ++i) for (size_t j = 0; j < N_; ++j) { T s = T(0); for (size_t k = 0; k < K_; ++k) s += A.data()[i * K_ + k] * B.data()[k * N_ + j]; c.eqn(C.data()[i * N_ + j], s, "map=matmul(map,map)", (long)(i * N_ + j)); }
        VP_LIB(At = transpose(A));
        for (size_t i = 0; i < M_; ++i) for (size_t k = 0; k < K_; ++k) c.eq(At.data()[k * M_ + i], A.data()[i * K_ + k], "map=transpose(map)", (long)(i * K_ + k));
        VP_LIB(At = trans(A));
        for (size_t i = 0; i < M_; ++i) for (size_t k = 0; k < K_; ++k) c.eq(At.data()[k * M_ + i], A.data()[i * K_ + k], "map=trans(map)", (long)(i * K_ + k));
        // last row / last column views of a map
        { Tensor<T, 1, K_> row = A(M_ - 1, all); for (size_t k = 0; k < K_; ++k) c.eq(row.data()[k], A.data()[(M_ - 1) * K_ + k], "map(last,all)", (long)k); }
        { Tensor<T, M_, 1> col = A(all, K_ - 1); for (size_t i = 0; i < M_; ++i) c.eq(col.data()[i], A.data()[i * K_ + K_ - 1], "map(all,last)", (long)i); }
        { T keep = A.data()[M_ * K_ - 1]; VP_LIB(A(seq((int)M_ - 1, (int)M_), seq((int)K_ - 1, (int)K_)) += T(1)); c.eq(A.data()[M_ * K_ - 1], (T)(keep + T(1)), "map(last,last)+=1", 0); }
        ba.verify(c, "A"); bb.verify(c, "B"); bc.verify(c, "C"); bt.verify(c, "At");
        ++c.sub;
    }
    c.nontrivial = true;
}

// sentinel: slice-of-map op= slice-of-map on rank-1 maps has no viable overload today (API gap, all configurations)
template <class T, size_t N> void map1d_slice_slice(Ctx& c) { alignas(64) T x[N], y[N]; for (size_t i = 0; i < N; ++i) { x[i] = (T)i; y[i] = (T)(10 * i); } TensorMap<T, N> a(x), b(y);
    b(seq(0, (int)N, 2)) += a(seq(0, (int)N, 2)); for (size_t i = 0; i < N; ++i) c.eq(y[i], (T)(i % 2 == 0 ? 11 * i : 10 * i), "map(seq)+=map(seq)", (long)i); c.nontrivial = true; }

// with runtime checks enabled an out-of-range index raises an error instead of accessing memory; the tensor sits flush against guard pages
// on both sides so that an unchecked access would fault
template <class T, size_t... D>
struct BOUNDS {
    static constexpr size_t R = sizeof...(D);
    template <class X, size_t... I> static T get(X& x, const std::vector<int>& i, std::index_sequence<I...>) { return x(i[I]...); }
    static void run(Ctx& c) {
#if FASTOR_BOUNDS_CHECK
        constexpr size_t SZ = Tensor<T, D...>::size();
        Guard gb(sizeof(T) * SZ, true, 0); TensorMap<T, D...> M(gb.ptr<T>()); Tensor<T, D...> O; fill_unique(M.data(), SZ, 100); fill_unique(O.data(), SZ, 100);
        std::vector<int> dims = { (int)D... };
        for (size_t ax = 0; ax < R; ++ax) {
            int bad[] = { dims[ax], dims[ax] + 1, -dims[ax] - 1, 1 << 20, -(1 << 20) };
            for (int b : bad) for (int which = 0; which < 2; ++which) {
                std::vector<int> idx(R, 0); idx[ax] = opaque(b);
                bool threw = false; std::string what;
                try { T v = which ? get(M, idx, std::make_index_sequence<R>()) : get(O, idx, std::make_index_sequence<R>()); (void)v; }
                catch (const std::exception& e) { threw = true; what = e.what(); }
                ++c.compared;
                if (!threw) { ++c.bad; if (c.mode.empty()) { c.mode = "out-of-range-index-not-rejected"; c.first_bad = std::string(which ? "TensorMap" : "Tensor") + " index " + std::to_string(b) + " on axis " + std::to_string(ax) + " of extent " + std::to_string(dims[ax]) + " did not raise"; } }
            }
        }
        // in-range accesses still work with checks on
        { std::vector<int> idx(R); for (size_t ax = 0; ax < R; ++ax) idx[ax] = dims[ax] - 1; c.eq(get(M, idx, std::make_index_sequence<R>()), M.data()[SZ - 1], "last element with checks on", 0); }
        gb.verify(c, "map"); c.nontrivial = true;
#else
        c.status = "na";
#endif
    }
};
}} // namespace
#endif
