// C08 -- SIMD vector types behave as independent scalar lanes: lane-wise oracle for every (T, ABI)
#ifndef VP_C08_H
#define VP_C08_H
#include "vp.h"
#include <cfenv>

namespace vp { namespace c08 {

using namespace Fastor;

template <class ABI> inline const char* abiname();
template <> inline const char* abiname<simd_abi::scalar>() { return "scalar"; }
template <> inline const char* abiname<simd_abi::sse>() { return "sse"; }
template <> inline const char* abiname<simd_abi::avx>() { return "avx"; }
template <> inline const char* abiname<simd_abi::avx512>() { return "avx512"; }
template <> inline const char* abiname<simd_abi::fixed_size<2>>() { return "fixed2"; }
template <> inline const char* abiname<simd_abi::fixed_size<4>>() { return "fixed4"; }
template <> inline const char* abiname<simd_abi::fixed_size<8>>() { return "fixed8"; }
template <> inline const char* abiname<simd_abi::fixed_size<3>>() { return "fixed3"; }

// ----------------------------------------------------------------------------- lane value generators
template <class T, class E = void> struct Gen;
template <class T> struct Gen<T, typename std::enable_if<std::is_floating_point<T>::value>::type> {
    static T boundary(Rng& g) {
        static const T pool[] = { T(0), -T(0), T(1), T(-1), T(2), T(-2), T(0.5), T(-0.5), T(3), T(1.5), T(-2.5), T(2.5), T(0.1), T(1e10), T(-1e-10),
            std::numeric_limits<T>::max(), std::numeric_limits<T>::lowest(), std::numeric_limits<T>::min(), -std::numeric_limits<T>::min(),
            std::numeric_limits<T>::denorm_min(), -std::numeric_limits<T>::denorm_min(), std::numeric_limits<T>::infinity(), -std::numeric_limits<T>::infinity(),
            std::numeric_limits<T>::quiet_NaN(), std::numeric_limits<T>::epsilon(), T(16777216), T(16777217), T(-7), T(1) / T(3) };
        return pool[g.next() % (sizeof pool / sizeof pool[0])];
    }
    static T small(Rng& g, int r = 7) { return (T)g.range(-r, r); }
    static T bits(Rng& g) { T v; uint64_t b = g.next(); std::memcpy(&v, &b, sizeof(T)); return v; }
    static T real(Rng& g) { return (T)g.real(-4, 4); }
    static T finite(Rng& g) { int k = (int)(g.next() % 4); return k == 0 ? small(g) : (k == 1 ? (T)g.real(-1e3, 1e3) : real(g)); }
};
template <class T> struct Gen<T, typename std::enable_if<std::is_integral<T>::value>::type> {
    static T boundary(Rng& g) {
        static const T pool[] = { T(0), T(1), T(-1), T(2), T(-2), T(3), T(7), T(-7), T(46340), T(46341), T(-46341), T(65535), T(65536),
            std::numeric_limits<T>::max(), std::numeric_limits<T>::min(), (T)(std::numeric_limits<T>::max() - 1), (T)(std::numeric_limits<T>::min() + 1),
            (T)(std::numeric_limits<T>::max() / 2), (T)(std::numeric_limits<T>::min() / 2), T(100), T(-128), T(255) };
        return pool[g.next() % (sizeof pool / sizeof pool[0])];
    }
    static T small(Rng& g, int r = 7) { return (T)g.range(-r, r); }
    static T bits(Rng& g) { T v; uint64_t b = g.next(); std::memcpy(&v, &b, sizeof(T)); return v; }
    static T real(Rng& g) { return (T)g.range(-100000, 100000); }
    static T finite(Rng& g) { return (g.next() & 1) ? small(g) : real(g); }
};
template <class R> struct Gen<std::complex<R>, void> {
    using T = std::complex<R>;
    static T boundary(Rng& g) { return T(Gen<R>::small(g, 3), Gen<R>::small(g, 3)); }
    static T small(Rng& g, int r = 5) { return T(Gen<R>::small(g, r), Gen<R>::small(g, r)); }
    static T bits(Rng& g) { return T(Gen<R>::real(g), Gen<R>::real(g)); }
    static T real(Rng& g) { return T(Gen<R>::real(g), Gen<R>::real(g)); }
    static T finite(Rng& g) { return real(g); }
};

// regime r: 0 boundary pool, 1 small ints, 2 random bit patterns, 3 moderate values
template <class T> inline T gen(Rng& g, int r) {
    switch (r) { case 0: return Gen<T>::boundary(g); case 1: return Gen<T>::small(g); case 2: return Gen<T>::bits(g); default: return Gen<T>::real(g); }
}

// ----------------------------------------------------------------------------- scalar semantics with UB screening
// returns false when the scalar C++ operation is undefined for these operands (then the lane is not judged)
template <class T> struct Sc {
    static bool add(T a, T b, T& r) { r = a + b; return true; }
    static bool sub(T a, T b, T& r) { r = a - b; return true; }
    static bool mul(T a, T b, T& r) { r = a * b; return true; }
    static bool div(T a, T b, T& r) { r = a / b; return true; }
    static bool neg(T a, T& r) { r = -a; return true; }
    static bool abs_(T a, T& r) { r = std::abs(a); return true; }
};
template <class T> struct ScInt {
    static bool add(T a, T b, T& r) { return !__builtin_add_overflow(a, b, &r); }
    static bool sub(T a, T b, T& r) { return !__builtin_sub_overflow(a, b, &r); }
    static bool mul(T a, T b, T& r) { return !__builtin_mul_overflow(a, b, &r); }
    static bool div(T a, T b, T& r) { if (b == 0 || (a == std::numeric_limits<T>::min() && b == T(-1))) return false; r = a / b; return true; }
    static bool neg(T a, T& r) { if (a == std::numeric_limits<T>::min()) return false; r = -a; return true; }
    static bool abs_(T a, T& r) { if (a == std::numeric_limits<T>::min()) return false; r = a < 0 ? -a : a; return true; }
};
template <> struct Sc<int> : ScInt<int> {};
template <> struct Sc<long> : ScInt<long> {};
template <> struct Sc<long long> : ScInt<long long> {};
template <> struct Sc<short> : ScInt<short> {};

// ----------------------------------------------------------------------------- member detection (SFINAE)
#define VP_HAS_MEMBER(name, expr) \
    template <class V, class = void> struct has_##name : std::false_type {}; \
    template <class V> struct has_##name<V, decltype((void)(expr), void())> : std::true_type {};
VP_HAS_MEMBER(product, std::declval<V&>().product())
VP_HAS_MEMBER(minimum, std::declval<V&>().minimum())
VP_HAS_MEMBER(maximum, std::declval<V&>().maximum())
VP_HAS_MEMBER(sum, std::declval<V&>().sum())
VP_HAS_MEMBER(dot, std::declval<V&>().dot(std::declval<V&>()))
VP_HAS_MEMBER(reverse, std::declval<V&>().reverse())
VP_HAS_MEMBER(shift, std::declval<V&>().shift(1))
VP_HAS_MEMBER(broadcast, std::declval<V&>().broadcast((const typename V::scalar_value_type*)nullptr))
VP_HAS_MEMBER(set_sequential, std::declval<V&>().set_sequential(typename V::scalar_value_type()))
VP_HAS_MEMBER(mask_load8, std::declval<V&>().mask_load((const typename V::scalar_value_type*)nullptr, (uint8_t)1, false))
VP_HAS_MEMBER(aligned_load, std::declval<V&>().aligned_load((const typename V::scalar_value_type*)nullptr))
VP_HAS_MEMBER(fmadd, fmadd(std::declval<const V&>(), std::declval<const V&>(), std::declval<const V&>()))
VP_HAS_MEMBER(abs, abs(std::declval<const V&>()))
VP_HAS_MEMBER(sqrt, sqrt(std::declval<const V&>()))
VP_HAS_MEMBER(rcp, rcp(std::declval<const V&>()))
VP_HAS_MEMBER(rsqrt, rsqrt(std::declval<const V&>()))
VP_HAS_MEMBER(minf, min(std::declval<const V&>(), std::declval<const V&>()))
VP_HAS_MEMBER(maxf, max(std::declval<const V&>(), std::declval<const V&>()))
VP_HAS_MEMBER(conj, conj(std::declval<const V&>()))
VP_HAS_MEMBER(neg, -std::declval<const V&>())
VP_HAS_MEMBER(divvv, std::declval<const V&>() / std::declval<const V&>())

template <bool B> struct If {};

// ----------------------------------------------------------------------------- the suite
template <class T, class ABI>
struct Suite {
    using V = SIMDVector<T, ABI>;
    static constexpr size_t N = V::Size;
    using R = real_t<T>;
    static constexpr bool isF = std::is_floating_point<T>::value;
    static constexpr bool isI = std::is_integral<T>::value;
    static constexpr bool isC = is_cplx<T>::value;

    struct Lanes { alignas(64) T v[N]; };

    static void fill(Lanes& l, Rng& g, int regime) {
        // lane-dependent rotation of regimes so that lane permutations become visible
        for (size_t i = 0; i < N; ++i) l.v[i] = gen<T>(g, regime);
        launder(l.v);
    }
    static V loadu(const Lanes& l) { V x(l.v, false); return x; }
    static void out(const V& x, Lanes& l) { x.store(l.v, false); launder(l.v); }

    static std::string show(const Lanes& a) { std::string s = "["; for (size_t i = 0; i < N && i < 4; ++i) s += vstr(a.v[i]) + " "; return s + "]"; }

    // compare lane i; complex arithmetic uses numeric equality in the exact regime only
    static void lane(Ctx& c, const char* op, size_t i, const T& got, const T& want, const Lanes* a = nullptr, const Lanes* b = nullptr) {
        ++c.compared;
        bool ok = isC ? num_eq(got, want) : same_val(got, want);
        if (ok) return;
        ++c.bad;
        if (c.mode.empty()) {
            c.mode = std::string("lane-mismatch:") + op;
            c.first_bad = std::string(op) + " lane " + std::to_string(i) + "/" + std::to_string(N) + " got " + vstr(got) + " want " + vstr(want);
            if (a) c.first_bad += " a=" + vstr(a->v[i]);
            if (b) c.first_bad += " b=" + vstr(b->v[i]);
        }
    }

    // -------------------------------------------------------------------------- construction / load / store
    static void loadstore(Ctx& c) {
        Rng g = c.rng();
        for (int it = 0; it < 200; ++it) {
            Lanes a; fill(a, g, it % 4); Lanes o;
            { V x(a.v, false); out(x, o); for (size_t i = 0; i < N; ++i) lane(c, "ctor(ptr,unaligned)", i, o.v[i], a.v[i]); }
            { V x(a.v, true); out(x, o); for (size_t i = 0; i < N; ++i) lane(c, "ctor(ptr,aligned)", i, o.v[i], a.v[i]); }
            { V x; x.load(a.v, false); x.store(o.v, true); launder(o.v); for (size_t i = 0; i < N; ++i) lane(c, "load-u/store-a", i, o.v[i], a.v[i]); }
            { V x; x.load(a.v, true); for (size_t i = 0; i < N; ++i) lane(c, "operator[]", i, (T)x[i], a.v[i]); }
            { V x(a.v[0]); out(x, o); for (size_t i = 0; i < N; ++i) lane(c, "broadcast-ctor", i, o.v[i], a.v[0]); }
            { V x; x = a.v[N - 1]; out(x, o); for (size_t i = 0; i < N; ++i) lane(c, "operator=(scalar)", i, o.v[i], a.v[N - 1]); }
            { V x; x.set(a.v[0]); out(x, o); for (size_t i = 0; i < N; ++i) lane(c, "set(scalar)", i, o.v[i], a.v[0]); }
            { V x(a.v, false); V y(x); V z; z = y; out(z, o); for (size_t i = 0; i < N; ++i) lane(c, "copy", i, o.v[i], a.v[i]); }
            aligned_ls(c, a, If<has_aligned_load<V>::value>());
            bcast(c, a, If<has_broadcast<V>::value>());
        }
        { V z; Lanes o; out(z, o); for (size_t i = 0; i < N; ++i) lane(c, "default-ctor-is-zero", i, o.v[i], T(0)); }
        seq(c, g, If<has_set_sequential<V>::value && !isC>());
        // unaligned load/store at every misalignment on guard pages (over-read / over-write faults are crashes)
        for (size_t mis = 0; mis < 64; mis += sizeof(R)) {
            for (int tail = 0; tail < 2; ++tail) {
                Guard gb(sizeof(T) * N, tail != 0, tail ? 0 : mis);
                // for tail placement the START misalignment follows from the size; add explicit shift too
                T* p = gb.ptr<T>();
                for (size_t i = 0; i < N; ++i) p[i] = gen<T>(g, 1);
                launder(p);
                V x(p, false); Lanes o; out(x, o);
                for (size_t i = 0; i < N; ++i) lane(c, "guard-load", i, o.v[i], p[i]);
                V y(o.v, false); T keep[N]; std::memcpy(keep, p, sizeof keep);
                std::memset((void*)p, 0, sizeof(T) * N); y.store(p, false); launder(p);
                for (size_t i = 0; i < N; ++i) lane(c, "guard-store", i, p[i], keep[i]);
                gb.verify(c, "unaligned load/store");
            }
        }
        c.nontrivial = true;
    }
    static void aligned_ls(Ctx& c, const Lanes& a, If<true>) { V x; x.aligned_load(a.v); Lanes o; x.aligned_store(o.v); launder(o.v); for (size_t i = 0; i < N; ++i) lane(c, "aligned_load/store", i, o.v[i], a.v[i]); }
    static void aligned_ls(Ctx& c, const Lanes&, If<false>) { c.notes["missing.aligned_load"] = 1; }
    static void bcast(Ctx& c, const Lanes& a, If<true>) { V x; x.broadcast(&a.v[N / 2]); Lanes o; out(x, o); for (size_t i = 0; i < N; ++i) lane(c, "broadcast(ptr)", i, o.v[i], a.v[N / 2]); }
    static void bcast(Ctx& c, const Lanes&, If<false>) { c.notes["missing.broadcast"] = 1; }
    static void seq(Ctx& c, Rng& g, If<true>) {
        for (int it = 0; it < 50; ++it) { T s0 = Gen<T>::small(g, 100); s0 = opaque(s0); V x; x.set_sequential(s0); Lanes o; out(x, o); for (size_t i = 0; i < N; ++i) lane(c, "set_sequential", i, o.v[i], (T)(s0 + (T)i)); }
    }
    static void seq(Ctx& c, Rng&, If<false>) { if (!isC) c.notes["missing.set_sequential"] = 1; }

    // -------------------------------------------------------------------------- lane-wise arithmetic
    // regimes for real floats: all four (IEEE: + - * / are exactly specified, bitwise incl. specials)
    // integers: all four, lanes where the scalar op is UB are skipped
    // complex: + - in all regimes (component-wise exact), * and / in the small regime / bounded
    static void arith(Ctx& c) {
        Rng g = c.rng();
        const int iters = 1500;
        long skipped = 0;
        for (int it = 0; it < iters; ++it) {
            int regime = it % 4;
            Lanes a, b0, b, o; fill(a, g, regime); fill(b0, g, isC ? regime : (regime + (it / 4) % 2) % 4);
            T s0 = opaque(gen<T>(g, regime)), s = s0;
            V va = loadu(a), vb;
            T r;
            // Integer lanes on which the scalar operation is undefined (overflow) get a neutral second operand for
            // that operation, so that the library is never driven outside the domain the property speaks about
            // (the generic/scalar vector classes execute the plain C++ operation, where overflow is UB).
#define VP_PREP(F, neutral) do { b = b0; s = s0; if (isI) { for (size_t i = 0; i < N; ++i) { T t_; if (!Sc<T>::F(a.v[i], b.v[i], t_) || !Sc<T>::F(s0, b.v[i], t_)) { b.v[i] = T(neutral); ++skipped; } } \
                for (size_t i = 0; i < N; ++i) { T t_; if (!Sc<T>::F(a.v[i], s, t_) || !Sc<T>::F(s, b.v[i], t_)) { s = T(neutral); ++skipped; } } \
                for (size_t i = 0; i < N; ++i) { T t_; if (!Sc<T>::F(s, b.v[i], t_)) { b.v[i] = T(neutral); } } } launder(b.v); vb = loadu(b); s = opaque(s); } while (0)
#define VP_BIN(opname, expr, F, lhs, rhs) do { V res = (expr); out(res, o); \
            for (size_t i = 0; i < N; ++i) { if (Sc<T>::F(lhs, rhs, r)) lane(c, opname, i, o.v[i], r, &a, &b); else ++skipped; } } while (0)
#define VP_INP(opname, stmt, F, lhs, rhs) do { V res = va; stmt; out(res, o); \
            for (size_t i = 0; i < N; ++i) { if (Sc<T>::F(lhs, rhs, r)) lane(c, opname, i, o.v[i], r, &a, &b); else ++skipped; } } while (0)
            VP_PREP(add, 0);
            VP_BIN("v+v", va + vb, add, a.v[i], b.v[i]);
            VP_BIN("v+s", va + s, add, a.v[i], s);
            VP_BIN("s+v", s + vb, add, s, b.v[i]);
            VP_INP("v+=v", res += vb, add, a.v[i], b.v[i]);
            VP_INP("v+=s", res += s, add, a.v[i], s);
            VP_PREP(sub, 0);
            VP_BIN("v-v", va - vb, sub, a.v[i], b.v[i]);
            VP_BIN("v-s", va - s, sub, a.v[i], s);
            VP_BIN("s-v", s - vb, sub, s, b.v[i]);
            VP_INP("v-=v", res -= vb, sub, a.v[i], b.v[i]);
            VP_INP("v-=s", res -= s, sub, a.v[i], s);
            if (!isC || regime == 1) {
                VP_PREP(mul, 1);
                VP_BIN("v*v", va * vb, mul, a.v[i], b.v[i]);
                VP_BIN("v*s", va * s, mul, a.v[i], s);
                VP_BIN("s*v", s * vb, mul, s, b.v[i]);
                VP_INP("v*=v", res *= vb, mul, a.v[i], b.v[i]);
                VP_INP("v*=s", res *= s, mul, a.v[i], s);
            }
            b = b0; s = s0; launder(b.v); vb = loadu(b);
            { V res = +va; out(res, o); for (size_t i = 0; i < N; ++i) lane(c, "+v", i, o.v[i], a.v[i]); }
            negate(c, va, a, o, skipped, If<has_neg<V>::value>());
            division(c, g, va, vb, a, b, s, regime, skipped, If<has_divvv<V>::value>());
        }
        c.notes["lanes_skipped_scalar_op_undefined"] = skipped;
        c.nontrivial = true;
    }
    static void negate(Ctx& c, const V& va0, const Lanes& a0, Lanes& o, long& skipped, If<true>) {
        Lanes a = a0; T t_; if (isI) for (size_t i = 0; i < N; ++i) if (!Sc<T>::neg(a.v[i], t_)) { a.v[i] = T(1); ++skipped; }
        launder(a.v); V va = loadu(a); (void)va0;
        V res = -va; out(res, o); T r;
        for (size_t i = 0; i < N; ++i) { if (Sc<T>::neg(a.v[i], r)) lane(c, "-v", i, o.v[i], r, &a); else ++skipped; }
    }
    static void negate(Ctx& c, const V&, const Lanes&, Lanes&, long&, If<false>) { c.notes["missing.unary-minus"] = 1; }

    static void division(Ctx& c, Rng& g, const V& va, const V& vb, const Lanes& a, const Lanes& b, T s, int regime, long& skipped, If<true>) {
        div_impl(c, g, va, vb, a, b, s, regime, skipped, If<isC>());
    }
    static void division(Ctx& c, Rng&, const V&, const V&, const Lanes&, const Lanes&, T, int, long&, If<false>) { c.notes["missing.operator/"] = 1; }
    // real / integer division: exact
    static void div_impl(Ctx& c, Rng&, const V& va, const V& vb, const Lanes& a, const Lanes& b, T s, int, long& skipped, If<false>) {
        Lanes o; T r;
        // integer division by zero / INT_MIN/-1 would trap inside the library's scalar loop: neutralise such lanes
        Lanes bb = b; T ss = s;
        if (isI) {
            for (size_t i = 0; i < N; ++i) { T t; if (!Sc<T>::div(a.v[i], bb.v[i], t) || !Sc<T>::div(s, bb.v[i], t)) { bb.v[i] = T(1); ++skipped; } }
            for (size_t i = 0; i < N; ++i) { T t; if (!Sc<T>::div(a.v[i], ss, t)) { ss = T(1); ++skipped; } }
        }
        launder(bb.v); ss = opaque(ss);
        V vbb = loadu(bb); (void)vb;
        { V res = va / vbb; out(res, o); for (size_t i = 0; i < N; ++i) if (Sc<T>::div(a.v[i], bb.v[i], r)) lane(c, "v/v", i, o.v[i], r, &a, &bb); }
        { V res = va / ss; out(res, o); for (size_t i = 0; i < N; ++i) if (Sc<T>::div(a.v[i], ss, r)) lane(c, "v/s", i, o.v[i], r, &a); }
        { V res = ss / vbb; out(res, o); for (size_t i = 0; i < N; ++i) if (Sc<T>::div(ss, bb.v[i], r)) lane(c, "s/v", i, o.v[i], r, nullptr, &bb); }
        { V res = va; res /= vbb; out(res, o); for (size_t i = 0; i < N; ++i) if (Sc<T>::div(a.v[i], bb.v[i], r)) lane(c, "v/=v", i, o.v[i], r, &a, &bb); }
        { V res = va; res /= ss; out(res, o); for (size_t i = 0; i < N; ++i) if (Sc<T>::div(a.v[i], ss, r)) lane(c, "v/=s", i, o.v[i], r, &a); }
    }
    // complex division: bounded relative error on moderate values
    static void div_impl(Ctx& c, Rng& g, const V&, const V&, const Lanes&, const Lanes&, T, int regime, long&, If<true>) {
        if (regime != 3) return;
        Lanes a, b, o;
        for (size_t i = 0; i < N; ++i) { a.v[i] = Gen<T>::real(g); do { b.v[i] = Gen<T>::real(g); } while (std::abs(b.v[i]) < R(0.25)); }
        launder(a.v); launder(b.v);
        V va = loadu(a), vb = loadu(b);
        long double u = unit_roundoff<T>();
        typedef std::complex<long double> CL;
        T sc; do { sc = Gen<T>::real(g); } while (std::abs(sc) < R(0.25)); sc = opaque(sc);
        R sr = opaque((R)(std::abs(sc.real()) + R(0.5)));
        // every spelling of the quotient is separate hand-written code: binary, compound, vector / complex scalar / real scalar operands on either side
        for (int form = 0; form < 8; ++form) {
            V res = va;
            switch (form) { case 0: res = va / vb; break; case 1: res /= vb; break; case 2: res = va / sc; break; case 3: res /= sc; break;
                            case 4: res = sc / vb; break; case 5: res = va / sr; break; case 6: res /= sr; break; default: res = sr / vb; break; }
            out(res, o);
            static const char* nm[] = { "complex v/v", "complex v/=v", "complex v/s", "complex v/=s", "complex s/v", "complex v/real", "complex v/=real", "complex real/v" };
            for (size_t i = 0; i < N; ++i) {
                CL A(a.v[i].real(), a.v[i].imag()), B(b.v[i].real(), b.v[i].imag()), S(sc.real(), sc.imag()), Rr((long double)sr, 0);
                CL w = form <= 1 ? A / B : (form <= 3 ? A / S : (form == 4 ? S / B : (form <= 6 ? A / Rr : Rr / B)));
                long double bound = 16 * u * std::abs(w);
                c.near(o.v[i].real(), w.real(), bound, nm[form], (long)i, form == 0 ? "lane-bound:v/v" : "lane-bound:complex-division-form");
                c.near(o.v[i].imag(), w.imag(), bound, nm[form], (long)i, form == 0 ? "lane-bound:v/v" : "lane-bound:complex-division-form");
            }
        }
    }

    // -------------------------------------------------------------------------- fused multiply-add family
    static void fma_ops(Ctx& c) { fma_impl(c, If<has_fmadd<V>::value>()); }
    static void fma_impl(Ctx& c, If<false>) { c.notes["missing.fmadd"] = 1; c.check(true, "n/a"); }
    template <class X> static typename std::enable_if<std::is_floating_point<X>::value, bool>::type
    fma_ok(X got, X a, X b, X cc, int kind) {
        // kind 0: a*b+c, 1: a*b-c, 2: -(a*b)+c ; either fused or separately rounded is the scalar operation
        X p = a * b; X unf = kind == 0 ? p + cc : (kind == 1 ? p - cc : cc - p);
        X fus = kind == 0 ? std::fma(a, b, cc) : (kind == 1 ? std::fma(a, b, -cc) : std::fma(-a, b, cc));
        return same_val(got, unf) || same_val(got, fus) || num_eq(got, unf) || num_eq(got, fus);
    }
    template <class X> static typename std::enable_if<std::is_integral<X>::value, bool>::type
    fma_ok(X got, X a, X b, X cc, int kind) {
        X p = Arith<X>::mul(a, b); X w = kind == 0 ? Arith<X>::add(p, cc) : (kind == 1 ? Arith<X>::sub(p, cc) : Arith<X>::sub(cc, p));
        return got == w;
    }
    template <class X> static bool fma_ok(std::complex<X> got, std::complex<X> a, std::complex<X> b, std::complex<X> cc, int kind) {
        std::complex<X> p = a * b; std::complex<X> w = kind == 0 ? p + cc : (kind == 1 ? p - cc : cc - p);
        return num_eq(got, w);
    }
    static void fma_impl(Ctx& c, If<true>) {
        Rng g = c.rng();
        for (int it = 0; it < 1500; ++it) {
            int regime = isC ? 1 : (isI ? (it % 2 ? 1 : 3) : it % 4);
            Lanes a, b, d, o; fill(a, g, regime); fill(b, g, regime); fill(d, g, regime);
            if (isI) for (size_t i = 0; i < N; ++i) { a.v[i] = (T)g.range(-30000, 30000); b.v[i] = (T)g.range(-30000, 30000); d.v[i] = (T)g.range(-30000, 30000); }
            launder(a.v); launder(b.v); launder(d.v);
            V va = loadu(a), vb = loadu(b), vd = loadu(d);
            const char* names[3] = { "fmadd", "fmsub", "fnmadd" };
            for (int kind = 0; kind < 3; ++kind) {
                V res = kind == 0 ? fmadd(va, vb, vd) : (kind == 1 ? fmsub(va, vb, vd) : fnmadd(va, vb, vd));
                out(res, o);
                for (size_t i = 0; i < N; ++i) {
                    ++c.compared;
                    if (!fma_ok(o.v[i], a.v[i], b.v[i], d.v[i], kind)) {
                        ++c.bad;
                        if (c.mode.empty()) { c.mode = std::string("lane-mismatch:") + names[kind]; c.first_bad = std::string(names[kind]) + " lane " + std::to_string(i) + " got " + vstr(o.v[i]) + " for a=" + vstr(a.v[i]) + " b=" + vstr(b.v[i]) + " c=" + vstr(d.v[i]); }
                    }
                }
            }
        }
        c.nontrivial = true;
    }

    // -------------------------------------------------------------------------- math: abs sqrt rcp rsqrt min max
    static void math(Ctx& c) {
        Rng g = c.rng();
        for (int it = 0; it < 1500; ++it) {
            int regime = it % 4;
            Lanes a, b; fill(a, g, regime); fill(b, g, regime);
            abs_(c, a, If<has_abs<V>::value && !isC>());
            sqrt_(c, a, If<has_sqrt<V>::value && isF>());
            rcp_(c, g, If<has_rcp<V>::value && isF>());
            if (it % 4 == 3) crcp_(c, g, If<has_rcp<V>::value && isC>());
            minmax(c, a, b, If<has_minf<V>::value && has_maxf<V>::value && !isC>());
        }
        if (!has_minf<V>::value) c.notes["missing.min/max"] = 1;
        if (c.compared == 0) { c.status = "na"; return; }   // no lane-wise math operation exists for this element type
        c.nontrivial = true;
    }
    static void abs_(Ctx& c, const Lanes& a0, If<true>) {
        Lanes a = a0; T t_; if (isI) for (size_t i = 0; i < N; ++i) if (!Sc<T>::abs_(a.v[i], t_)) a.v[i] = T(-1);
        launder(a.v);
        V res = abs(loadu(a)); Lanes o; out(res, o); T r; for (size_t i = 0; i < N; ++i) if (Sc<T>::abs_(a.v[i], r)) lane(c, "abs", i, o.v[i], r, &a);
    }
    static void abs_(Ctx&, const Lanes&, If<false>) {}
    static void sqrt_(Ctx& c, const Lanes& a, If<true>) {
        V res = sqrt(loadu(a)); Lanes o; out(res, o); for (size_t i = 0; i < N; ++i) lane(c, "sqrt", i, o.v[i], (T)std::sqrt(a.v[i]), &a);
    }
    static void sqrt_(Ctx&, const Lanes&, If<false>) {}
    static void rcp_(Ctx& c, Rng& g, If<true>) {
        // documented approximate operations: relative error <= 1.5*2^-12 on normal, moderate inputs
        Lanes a, o;
        for (size_t i = 0; i < N; ++i) { double e = g.real(-30, 30); a.v[i] = (T)(std::exp2(e) * (1 + g.unit())); if (g.next() & 1) a.v[i] = -a.v[i]; }
        launder(a.v);
        { V res = rcp(loadu(a)); out(res, o); for (size_t i = 0; i < N; ++i) { long double w = 1.0L / a.v[i]; c.near(o.v[i], w, fabsl(w) * 1.5L / 4096, "rcp", (long)i, "lane-bound:rcp"); } }
        for (size_t i = 0; i < N; ++i) a.v[i] = std::abs(a.v[i]);
        launder(a.v);
        rsqrt_(c, a, If<has_rsqrt<V>::value>());
    }
    static void rcp_(Ctx&, Rng&, If<false>) {}
    // complex reciprocal: 1/a within the same relative tolerance as the real approximate reciprocal (the complex versions divide exactly)
    static void crcp_(Ctx& c, Rng& g, If<true>) {
        Lanes a, o;
        for (size_t i = 0; i < N; ++i) { do { a.v[i] = Gen<T>::real(g); } while (std::abs(a.v[i]) < R(0.25)); }
        launder(a.v);
        V res = rcp(loadu(a)); out(res, o);
        for (size_t i = 0; i < N; ++i) {
            std::complex<long double> w = std::complex<long double>(1, 0) / std::complex<long double>(a.v[i].real(), a.v[i].imag());
            long double bound = std::abs(w) * 1.5L / 4096;
            c.near(o.v[i].real(), w.real(), bound, "complex rcp re", (long)i, "lane-bound:complex-rcp");
            c.near(o.v[i].imag(), w.imag(), bound, "complex rcp im", (long)i, "lane-bound:complex-rcp");
        }
    }
    static void crcp_(Ctx&, Rng&, If<false>) {}
    static void rsqrt_(Ctx& c, const Lanes& a, If<true>) {
        V res = rsqrt(loadu(a)); Lanes o; out(res, o);
        for (size_t i = 0; i < N; ++i) { long double w = 1.0L / sqrtl((long double)a.v[i]); c.near(o.v[i], w, fabsl(w) * 1.5L / 4096, "rsqrt", (long)i, "lane-bound:rsqrt"); }
    }
    static void rsqrt_(Ctx& c, const Lanes&, If<false>) { c.notes["missing.rsqrt"] = 1; }
    static bool mm_admissible(T x, T y) {
        if (x != x || y != y) return false;          // NaN operands: hardware min/max and std::min differ legitimately
        if (x == y && std::memcmp(&x, &y, sizeof(T)) != 0) return false;   // (+0,-0)
        return true;
    }
    static void minmax(Ctx& c, const Lanes& a, const Lanes& b, If<true>) {
        V va = loadu(a), vb = loadu(b); Lanes o;
        { V res = min(va, vb); out(res, o); for (size_t i = 0; i < N; ++i) if (mm_admissible(a.v[i], b.v[i])) lane(c, "min", i, o.v[i], std::min(a.v[i], b.v[i]), &a, &b); }
        { V res = max(va, vb); out(res, o); for (size_t i = 0; i < N; ++i) if (mm_admissible(a.v[i], b.v[i])) lane(c, "max", i, o.v[i], std::max(a.v[i], b.v[i]), &a, &b); }
    }
    static void minmax(Ctx&, const Lanes&, const Lanes&, If<false>) {}

    // -------------------------------------------------------------------------- horizontal operations
    static void horiz(Ctx& c) {
        Rng g = c.rng();
        for (int it = 0; it < 1500; ++it) {
            Lanes a, b;
            // exact regime: small values so that every association gives the same bits
            int r = (N >= 16) ? 2 : 3;
            for (size_t i = 0; i < N; ++i) { a.v[i] = Gen<T>::small(g, r); b.v[i] = Gen<T>::small(g, r); }
            launder(a.v); launder(b.v);
            hsum(c, a, true, If<has_sum<V>::value>());
            { Lanes pz; for (size_t i = 0; i < N; ++i) { pz.v[i] = nzsmall(g); } launder(pz.v); hprod(c, pz, If<has_product<V>::value>()); }
            hdot(c, a, b, true, If<has_dot<V>::value>());
            // sign patterns for min/max: all negative, all positive, mixed, extreme at each position
            int pat = it % 4;
            for (size_t i = 0; i < N; ++i) {
                long v = g.range(1, 1000);
                a.v[i] = pat == 0 ? (T)(-v) : (pat == 1 ? (T)v : (T)(g.next() & 1 ? v : -v));
            }
            if (pat == 3) a.v[(it / 4) % N] = (T)((it & 4) ? 5000 : -5000);
            launder(a.v);
            hminmax(c, a, If<has_minimum<V>::value && has_maximum<V>::value && !isC>());
            // rounding regime for floating sums
            if (isF) {
                for (size_t i = 0; i < N; ++i) { a.v[i] = Gen<T>::real(g); b.v[i] = Gen<T>::real(g); }
                launder(a.v); launder(b.v);
                hsum(c, a, false, If<has_sum<V>::value>());
                hdot(c, a, b, false, If<has_dot<V>::value>());
            }
        }
        if (!has_product<V>::value) c.notes["missing.product"] = 1;
        if (!has_minimum<V>::value && !isC) c.notes["missing.minimum"] = 1;
        if (!has_maximum<V>::value && !isC) c.notes["missing.maximum"] = 1;
        if (!has_dot<V>::value) c.notes["missing.dot"] = 1;
        c.nontrivial = true;
    }
    // non-zero small factors whose N-fold product is exactly representable
    template <class X = T> static typename std::enable_if<!is_cplx<X>::value, X>::type nzsmall(Rng& g) { long v = g.range(1, N >= 16 ? 2 : 3); return (X)((g.next() & 1) ? v : -v); }
    template <class X = T> static typename std::enable_if<is_cplx<X>::value, X>::type nzsmall(Rng& g) {
        static const int re[] = {1, -1, 0, 0, 1, -1, 1, -1}, im[] = {0, 0, 1, -1, 1, 1, -1, -1}; int k = (int)(g.next() % 8); return X((R)re[k], (R)im[k]); }
    static void hval(Ctx& c, const char* op, T got, T want, long double bound, bool exact, const Lanes& a) {
        ++c.compared;
        bool ok;
        if (exact || !isF) ok = num_eq(got, want);
        else ok = fabsl((long double)std::abs(got - want)) <= bound && !(std::abs(got) != std::abs(got));
        if (!ok) { ++c.bad; if (c.mode.empty()) { c.mode = std::string("horizontal-mismatch:") + op; c.first_bad = std::string(op) + " got " + vstr(got) + " want " + vstr(want) + " lanes " + show(a); } }
    }
    static void hsum(Ctx& c, const Lanes& a, bool exact, If<true>) {
        V va = loadu(a); T got = va.sum(); T w = T(0); long double m = 0; for (size_t i = 0; i < N; ++i) { w = w + a.v[i]; m += std::abs(a.v[i]); }
        hval(c, "sum", got, w, (long double)N * unit_roundoff<T>() * m, exact, a);
    }
    static void hsum(Ctx& c, const Lanes&, bool, If<false>) { c.notes["missing.sum"] = 1; }
    static void hprod(Ctx& c, const Lanes& a, If<true>) {
        V va = loadu(a); T got = va.product(); T w = T(1); for (size_t i = 0; i < N; ++i) w = w * a.v[i];
        hval(c, "product", got, w, 0, true, a);
    }
    static void hprod(Ctx&, const Lanes&, If<false>) {}
    static void hdot(Ctx& c, const Lanes& a, const Lanes& b, bool exact, If<true>) {
        V va = loadu(a), vb = loadu(b); T got = va.dot(vb); T w = T(0); long double m = 0;
        for (size_t i = 0; i < N; ++i) { w = w + a.v[i] * b.v[i]; m += std::abs(a.v[i] * b.v[i]); }
        hval(c, "dot", got, w, (long double)(N + 1) * 2 * unit_roundoff<T>() * m, exact, a);
    }
    static void hdot(Ctx&, const Lanes&, const Lanes&, bool, If<false>) {}
    static void hminmax(Ctx& c, const Lanes& a, If<true>) {
        V va = loadu(a); T mn = a.v[0], mx = a.v[0]; for (size_t i = 1; i < N; ++i) { mn = std::min(mn, a.v[i]); mx = std::max(mx, a.v[i]); }
        hval(c, "minimum", (T)va.minimum(), mn, 0, true, a);
        hval(c, "maximum", (T)va.maximum(), mx, 0, true, a);
    }
    static void hminmax(Ctx&, const Lanes&, If<false>) {}

    // -------------------------------------------------------------------------- reverse / shift / comparisons
    static void misc(Ctx& c) {
        Rng g = c.rng();
        for (int it = 0; it < 400; ++it) {
            Lanes a, b; fill(a, g, it % 4); fill(b, g, it % 4);
            if (it % 3 == 0) for (size_t i = 0; i < N; i += 2) b.v[i] = a.v[i];   // force equal lanes
            launder(b.v);
            rev(c, a, If<has_reverse<V>::value>());
            cmp(c, a, b, g, If<!isC>());
        }
        if (!has_reverse<V>::value) c.notes["missing.reverse"] = 1;
        c.nontrivial = true;
    }
    static void rev(Ctx& c, const Lanes& a, If<true>) { V va = loadu(a); V r = va.reverse(); Lanes o; out(r, o); for (size_t i = 0; i < N; ++i) lane(c, "reverse", i, o.v[i], a.v[N - 1 - i]); }
    static void rev(Ctx&, const Lanes&, If<false>) {}
    static void cmp(Ctx& c, const Lanes& a, const Lanes& b, Rng& g, If<true>) {
        V va = loadu(a), vb = loadu(b);
        T s = opaque(a.v[g.next() % N]);
#define VP_CMP(OP, name) do { auto m = (va OP vb); for (size_t i = 0; i < N; ++i) { ++c.compared; bool w = (a.v[i] OP b.v[i]); if ((bool)m[i] != w) { ++c.bad; if (c.mode.empty()) { c.mode = "lane-mismatch:cmp" name; c.first_bad = std::string("cmp ") + name + " lane " + std::to_string(i) + " a=" + vstr(a.v[i]) + " b=" + vstr(b.v[i]); } } } \
            auto m2 = (va OP s); for (size_t i = 0; i < N; ++i) { ++c.compared; bool w = (a.v[i] OP s); if ((bool)m2[i] != w) { ++c.bad; if (c.mode.empty()) { c.mode = "lane-mismatch:cmp-scalar" name; c.first_bad = std::string("cmp-scalar ") + name + " lane " + std::to_string(i) + " a=" + vstr(a.v[i]) + " s=" + vstr(s); } } } } while (0)
        VP_CMP(==, "=="); VP_CMP(!=, "!="); VP_CMP(<, "<"); VP_CMP(>, ">"); VP_CMP(<=, "<="); VP_CMP(>=, ">=");
    }
    static void cmp(Ctx&, const Lanes&, const Lanes&, Rng&, If<false>) {}

    // -------------------------------------------------------------------------- masked load / store
    // bit k of the mask <-> lane k (array_to_mask / mask_to_array convention of the generic implementation)
    template <class MaskT>
    static void masks_t(Ctx& c) {
        Rng g = c.rng();
        const unsigned long long nmask = (N >= 64) ? 0 : (1ull << N);
        std::vector<unsigned long long> ms;
        if (N <= 8) for (unsigned long long m = 0; m < nmask; ++m) ms.push_back(m);
        else {
            for (size_t k = 0; k <= N; ++k) { ms.push_back((1ull << k) - 1); ms.push_back(((1ull << N) - 1) & ~((1ull << k) - 1)); }
            for (size_t k = 0; k < N; ++k) ms.push_back(1ull << k);
            for (int i = 0; i < 4096; ++i) ms.push_back(g.next() & ((1ull << N) - 1));
        }
        long preserved = 0, zeroed = 0;
        for (unsigned long long m : ms) {
            Lanes mem, prev, o;
            fill(mem, g, 1); fill(prev, g, 1);
            for (size_t i = 0; i < N; ++i) { if (mem.v[i] == T(0)) mem.v[i] = T(1); if (prev.v[i] == T(0) || prev.v[i] == mem.v[i]) prev.v[i] = T(9); }
            launder(mem.v); launder(prev.v);
            // masked load into a zero vector: enabled lanes = memory, disabled lanes = 0
            { V x; x.mask_load(mem.v, (MaskT)m, false); out(x, o);
              for (size_t i = 0; i < N; ++i) lane(c, "mask_load", i, o.v[i], ((m >> i) & 1) ? mem.v[i] : T(0)); }
            // masked load over existing contents: disabled lanes are either zero-filled (generic convention) or preserved
            { V x(prev.v, false); x.mask_load(mem.v, (MaskT)m, false); out(x, o);
              for (size_t i = 0; i < N; ++i) {
                  if ((m >> i) & 1) lane(c, "mask_load(enabled)", i, o.v[i], mem.v[i]);
                  else { ++c.compared; if (num_eq(o.v[i], T(0))) ++zeroed; else if (num_eq(o.v[i], prev.v[i])) ++preserved; else { ++c.bad; if (c.mode.empty()) { c.mode = "lane-mismatch:mask_load-disabled"; c.first_bad = "mask_load disabled lane " + std::to_string(i) + " holds " + vstr(o.v[i]) + " (neither 0 nor previous " + vstr(prev.v[i]) + ") mask=" + std::to_string(m); } } }
              } }
            // masked store: enabled lanes written, disabled lanes of memory untouched
            { V x(mem.v, false); Lanes dst = prev; launder(dst.v); x.mask_store(dst.v, (MaskT)m, false); launder(dst.v);
              for (size_t i = 0; i < N; ++i) lane(c, ((m >> i) & 1) ? "mask_store(enabled)" : "mask_store(disabled-lane-touched)", i, dst.v[i], ((m >> i) & 1) ? mem.v[i] : prev.v[i]); }
            // prefix masks: the disabled tail may lie on an inaccessible page
            bool prefix = (m & (m + 1)) == 0 && m != 0;
            if (prefix) {
                size_t k = 0; while ((m >> k) & 1) ++k;
                Guard gb(sizeof(T) * k, true, 0); T* p = gb.ptr<T>();
                for (size_t i = 0; i < k; ++i) p[i] = mem.v[i];
                launder(p);
                V x; x.mask_load(p, (MaskT)m, false); out(x, o);
                for (size_t i = 0; i < k; ++i) lane(c, "mask_load(guard)", i, o.v[i], mem.v[i]);
                V y(prev.v, false); y.mask_store(p, (MaskT)m, false); launder(p);
                for (size_t i = 0; i < k; ++i) lane(c, "mask_store(guard)", i, p[i], prev.v[i]);
                gb.verify(c, "masked access");
            }
            ++c.sub;
        }
        c.notes["mask_load_disabled_lane_zeroed"] = zeroed;
        c.notes["mask_load_disabled_lane_preserved"] = preserved;
        c.notes["masks_driven"] = (long)ms.size();
        c.nontrivial = true;
    }
    static void masks(Ctx& c) { masks_sel(c, If<(N <= 8)>()); }
    static void masks_sel(Ctx& c, If<true>) { masks_t<uint8_t>(c); }
    static void masks_sel(Ctx& c, If<false>) { masks_t<uint16_t>(c); }

    // free functions maskload<V>/maskstore<V> taking an int array (entries -1 = enabled, reversed order)
    static void freemasks(Ctx& c) {
        Rng g = c.rng();
        const unsigned long long all = (N >= 64) ? ~0ull : ((1ull << N) - 1);
        std::vector<unsigned long long> ms;
        if (N <= 8) for (unsigned long long m = 0; m <= all; ++m) ms.push_back(m);
        else { for (size_t k = 0; k <= N; ++k) { ms.push_back((1ull << k) - 1); } for (int i = 0; i < 1024; ++i) ms.push_back(g.next() & all); }
        for (unsigned long long m : ms) {
            int maska[N]; for (size_t i = 0; i < N; ++i) maska[i] = ((m >> (N - 1 - i)) & 1) ? -1 : 0;
            Lanes mem, prev, o; fill(mem, g, 1); fill(prev, g, 1);
            for (size_t i = 0; i < N; ++i) { if (mem.v[i] == T(0)) mem.v[i] = T(1); if (prev.v[i] == mem.v[i]) prev.v[i] = T(9); }
            launder(mem.v); launder(prev.v);
            { V x = maskload<V>(mem.v, maska); out(x, o); for (size_t i = 0; i < N; ++i) lane(c, "maskload<V>", i, o.v[i], ((m >> i) & 1) ? mem.v[i] : T(0)); }
            { V x(mem.v, false); Lanes dst = prev; launder(dst.v); maskstore<V>(dst.v, maska, x); launder(dst.v);
              for (size_t i = 0; i < N; ++i) lane(c, ((m >> i) & 1) ? "maskstore<V>(enabled)" : "maskstore<V>(disabled-lane-touched)", i, dst.v[i], ((m >> i) & 1) ? mem.v[i] : prev.v[i]); }
            bool prefix = (m & (m + 1)) == 0 && m != 0;
            if (prefix) {
                size_t k = 0; while ((m >> k) & 1) ++k;
                Guard gb(sizeof(T) * k, true, 0); T* p = gb.ptr<T>();
                for (size_t i = 0; i < k; ++i) p[i] = mem.v[i];
                launder(p);
                V x = maskload<V>(p, maska); out(x, o);
                for (size_t i = 0; i < k; ++i) lane(c, "maskload<V>(guard)", i, o.v[i], mem.v[i]);
                V y(prev.v, false); maskstore<V>(p, maska, y); launder(p);
                for (size_t i = 0; i < k; ++i) lane(c, "maskstore<V>(guard)", i, p[i], prev.v[i]);
                gb.verify(c, "free masked access");
            }
            ++c.sub;
        }
        c.nontrivial = true;
    }

    // -------------------------------------------------------------------------- complex-only operations
    static void cplx(Ctx& c) { cplx_impl(c, If<isC>()); }
    static void cplx_impl(Ctx& c, If<false>) { c.check(true, "n/a"); }
    static void cplx_impl(Ctx& c, If<true>) {
        Rng g = c.rng();
        using VR = decltype(std::declval<V&>().real());
        for (int it = 0; it < 600; ++it) {
            Lanes a; fill(a, g, it % 2 ? 1 : 3); V va = loadu(a);
            alignas(64) R re[N], im[N];
            { VR r = va.real(); r.store(re, false); VR i2 = va.imag(); i2.store(im, false); launder(re); launder(im);
              for (size_t i = 0; i < N; ++i) { c.eq(re[i], a.v[i].real(), "real()", (long)i, "lane-mismatch:real"); c.eq(im[i], a.v[i].imag(), "imag()", (long)i, "lane-mismatch:imag"); } }
            conj_(c, va, a, If<has_conj<V>::value>());
            if (it % 2) {   // exact regime: norm is an integer
                VR n = va.norm(); n.store(re, false); launder(re);
                for (size_t i = 0; i < N; ++i) c.eqn(re[i], (R)std::norm(a.v[i]), "norm()", (long)i, "lane-mismatch:norm");
            } else {
                VR n = va.magnitude(); n.store(re, false); launder(re);
                for (size_t i = 0; i < N; ++i) c.near(re[i], (long double)std::abs(std::complex<long double>(a.v[i].real(), a.v[i].imag())), 4 * unit_roundoff<T>() * std::abs(a.v[i]), "magnitude()", (long)i, "lane-bound:magnitude");
            }
            // rounding regime for complex multiply: |got-want| <= 4u|a||b|
            Lanes b, o; fill(b, g, 3); V vb = loadu(b); V p = va * vb; out(p, o);
            for (size_t i = 0; i < N; ++i) {
                std::complex<long double> w = std::complex<long double>(a.v[i].real(), a.v[i].imag()) * std::complex<long double>(b.v[i].real(), b.v[i].imag());
                long double bound = 4 * unit_roundoff<T>() * std::abs(a.v[i]) * std::abs(b.v[i]);
                c.near(o.v[i].real(), w.real(), bound, "complex v*v re", (long)i, "lane-bound:v*v");
                c.near(o.v[i].imag(), w.imag(), bound, "complex v*v im", (long)i, "lane-bound:v*v");
            }
        }
        c.nontrivial = true;
    }
    static void conj_(Ctx& c, const V& va, const Lanes& a, If<true>) { V r = conj(va); Lanes o; out(r, o); for (size_t i = 0; i < N; ++i) lane(c, "conj", i, o.v[i], std::conj(a.v[i])); }
    static void conj_(Ctx& c, const V&, const Lanes&, If<false>) { c.notes["missing.conj"] = 1; }

    static void sizecheck(Ctx& c) {
        c.notes[std::string("Size=") + std::to_string(N)] = 1;
        c.check(N == V::size(), "size()-vs-Size");
        c.nontrivial = true; c.compared = 1;
    }
};

// exhaustive unary sweep over all 2^32 bit patterns (float and int32), chunked: chunk k of nchunks
template <class T, class ABI>
void exhaustive_unary(Ctx& c, unsigned chunk, unsigned nchunks) {
    using V = SIMDVector<T, ABI>; constexpr size_t N = V::Size;
    static_assert(sizeof(T) == 4, "32-bit types only");
    uint64_t total = 1ull << 32, per = total / nchunks, lo = per * chunk, hi = (chunk + 1 == nchunks) ? total : lo + per;
    alignas(64) T in[N], o[N];
    long bad_neg = 0, bad_abs = 0, bad_sqrt = 0;
    for (uint64_t base = lo; base < hi; base += N) {
        for (size_t i = 0; i < N; ++i) { uint32_t b = (uint32_t)(base + i); std::memcpy(&in[i], &b, 4); }
        // the one pattern on which the scalar operations themselves are undefined (-INT_MIN, abs(INT_MIN)) is not handed to the library: its generic
        // classes are plain C++ loops, and the property does not speak about inputs whose scalar result does not exist
        if (std::is_integral<T>::value && std::is_signed<T>::value) for (size_t i = 0; i < N; ++i) { T w; if (!Sc<T>::neg(in[i], w)) { in[i] = T(0); ++c.notes["skipped:scalar-operation-undefined"]; } }
        launder(in);
        V x(in, false);
        { V r = -x; r.store(o, false); for (size_t i = 0; i < N; ++i) { T w; if (Sc<T>::neg(in[i], w)) { ++c.compared; if (!same_val(o[i], w)) { ++c.bad; if (!bad_neg++ && c.mode.empty()) { c.mode = "lane-mismatch:-v"; c.first_bad = "exhaustive -v in=" + vstr(in[i]) + " got " + vstr(o[i]); } } } } }
        { V r = abs(x); r.store(o, false); for (size_t i = 0; i < N; ++i) { T w; if (Sc<T>::abs_(in[i], w)) { ++c.compared; if (!same_val(o[i], w)) { ++c.bad; if (!bad_abs++ && c.mode.empty()) { c.mode = "lane-mismatch:abs"; c.first_bad = "exhaustive abs in=" + vstr(in[i]) + " got " + vstr(o[i]); } } } } }
        if (std::is_floating_point<T>::value) {
            V r = sqrt(x); r.store(o, false); for (size_t i = 0; i < N; ++i) { ++c.compared; T w = (T)std::sqrt(in[i]); if (!same_val(o[i], w)) { ++c.bad; if (!bad_sqrt++ && c.mode.empty()) { c.mode = "lane-mismatch:sqrt"; c.first_bad = "exhaustive sqrt in=" + vstr(in[i]) + " got " + vstr(o[i]); } } }
        }
    }
    c.sub = (long)(hi - lo); c.nontrivial = true;
}

}} // namespace
#endif
