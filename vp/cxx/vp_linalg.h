// C10-C13 -- inverse, LU, solve, QR: residual oracles with condition-scaled bounds
#ifndef VP_LINALG_H
#define VP_LINALG_H
#include "vp_la.h"

namespace vp { namespace lin {
using namespace Fastor; using la::LD; using la::Mat;

static const LD CBOUND = 16;   // the constant c of the bounds c*n*u*kappa*growth (growth = || |L||U| || / ||A|| of the un-exchanged elimination, ~1 for the inputs the property names; see DESIGN.md C10)

// matrix family: 0 diagonally dominant, 1 SPD, 2 prescribed condition number kappa (geometric singular values), 3 row permutation of a dominant matrix
template <class T> inline void fill_family(T* A, size_t n, int fam, LD kappa, Rng& g) {
    switch (fam) { case 0: la::fill_dominant(A, n, g); break; case 1: la::fill_spd(A, n, g); break; case 2: la::fill_cond(A, n, kappa, g); break; default: la::fill_dominant_permuted(A, n, g); break; }
}
inline const char* famname(int f) { static const char* n[] = { "dominant", "spd", "cond", "dominant-rowperm" }; return n[f]; }

// max( ||A X - I||, ||X A - I|| ) in the infinity norm, long double
inline LD inv_residual(const Mat& A, const Mat& X, size_t n) {
    Mat AX = la::matmul(A, X, n, n, n), XA = la::matmul(X, A, n, n, n);
    for (size_t i = 0; i < n; ++i) { AX[i * n + i] -= 1; XA[i * n + i] -= 1; }
    return std::max(la::norm_inf(AX, n, n), la::norm_inf(XA, n, n));
}
template <class T> inline void judge_inverse(Ctx& c, const T* a, const T* x, size_t n, bool pivoted, const char* what) {
    Mat A = la::to_ld(a, n * n), X = la::to_ld(x, n * n);
    LD kap = la::cond_inf(A, n);
    LD rho;
    { Mat Ap = pivoted ? la::prepivot(A, n) : A; LD wl = la::worst_leading_cond(Ap, n); if (wl > 1e3L) { ++c.notes["not-judged:ill-conditioned-leading-block"]; return; } kap = std::max(kap, wl); rho = la::lu_growth(Ap, n); }
    ++c.compared;
    if (!la::finite_all(X)) { c.fail("non-finite-result", std::string(what) + " returned NaN/inf for a matrix with cond " + std::to_string((double)kap)); return; }
    LD res = inv_residual(A, X, n), bound = CBOUND * n * unit_roundoff<T>() * kap * rho;
    double r = (double)(res / bound); if (r > c.max_ratio) c.max_ratio = r;
    if (res > bound) { ++c.bad; if (c.mode.empty()) { c.mode = "residual-exceeds-bound"; char b[256]; snprintf(b, sizeof b, "%s: max(|AX-I|,|XA-I|)=%.3Lg > %.3Lg = 16*n*u*cond*growth (n=%zu cond=%.3Lg growth=%.3Lg)", what, res, bound, n, kap, rho); c.first_bad = b; } }
}

template <InvCompType IT> struct InvPiv { static constexpr bool value = IT == InvCompType::SimpleInvPiv || IT == InvCompType::BlockLUPiv || IT == InvCompType::SimpleLUPiv; };

// ---------------------------------------------------------------- C10
template <class T, size_t N, InvCompType IT, int FAM>
void inv_case(Ctx& c) {
    Rng g = c.rng();
    VP_OPERAND((Tensor<T, N, N>), A);
    for (int it = 0; it < 10; ++it) {
        LD kappa = FAM == 2 ? (it % 3 == 0 ? 1 : (it % 3 == 1 ? 10 : 1000)) : 1;
        fill_family(A.data(), N, FAM, kappa, g);
        { Framed<Tensor<T, N, N>> X; paint(X->data(), N * N); VP_LIB(*X = inverse<IT>(A)); judge_inverse(c, A.data(), X->data(), N, InvPiv<IT>::value, "inverse<IT>(A)"); X.verify(c, "inverse"); }
        if (it < 3) { scrub_stack(); Tensor<T, N, N> X = inverse<IT>(A * T(1)); launder(X.data()); judge_inverse(c, A.data(), X.data(), N, InvPiv<IT>::value, "inverse<IT>(expr)"); }
        ++c.sub;
    }
    c.nontrivial = true;
}
// lazy inv(A) in assignments
template <class T, size_t N>
void inv_lazy(Ctx& c) {
    Rng g = c.rng(); VP_OPERAND((Tensor<T, N, N>), A);
    for (int it = 0; it < 10; ++it) {
        la::fill_dominant(A.data(), N, g);
        { Framed<Tensor<T, N, N>> X; paint(X->data(), N * N); VP_LIB(*X = inv(A)); judge_inverse(c, A.data(), X->data(), N, false, "X=inv(A)"); X.verify(c, "X=inv(A)"); }
        { scrub_stack(); Tensor<T, N, N> X = inv(A); launder(X.data()); judge_inverse(c, A.data(), X.data(), N, false, "Tensor X=inv(A)"); }
        { scrub_stack(); Tensor<T, N, N> X = inv(A * T(1)); launder(X.data()); judge_inverse(c, A.data(), X.data(), N, false, "inv(expr)"); }
    }
    c.nontrivial = true;
}
// triangular inverses
template <class T, size_t N>
void tinv_case(Ctx& c) {
    Rng g = c.rng(); VP_OPERAND((Tensor<T, N, N>), A);
    const double OFFD = N <= 16 ? 0.5 : 2.0 / std::sqrt((double)N);     // keeps the condition number of the larger inputs inside the judged range
    for (int it = 0; it < 10; ++it) {
        // unit lower triangular, moderately sized multipliers
        for (size_t i = 0; i < N; ++i) for (size_t j = 0; j < N; ++j) A.data()[i * N + j] = i == j ? T(1) : (j < i ? (T)g.real(-OFFD, OFFD) : T(0));
        launder(A.data());
        { scrub_stack(); Tensor<T, N, N> X = tinverse<InvCompType::SimpleInv, UpLoType::UniLower>(A); launder(X.data()); judge_inverse(c, A.data(), X.data(), N, false, "tinverse<UniLower>");
          for (size_t i = 0; i < N; ++i) for (size_t j = i + 1; j < N; ++j) { ++c.checks; if (X.data()[i * N + j] != T(0)) c.fail("triangular-structure-lost", "tinverse<UniLower> has a non-zero above the diagonal"); } }
        // upper triangular with a dominant diagonal
        for (size_t i = 0; i < N; ++i) for (size_t j = 0; j < N; ++j) A.data()[i * N + j] = i == j ? (T)((g.next() & 1 ? 1 : -1) * g.real(1.5, 3)) : (j > i ? (T)g.real(-OFFD, OFFD) : T(0));
        launder(A.data());
        { scrub_stack(); Tensor<T, N, N> X = tinverse<InvCompType::SimpleInv, UpLoType::Upper>(A); launder(X.data()); judge_inverse(c, A.data(), X.data(), N, false, "tinverse<Upper>");
          for (size_t i = 0; i < N; ++i) for (size_t j = 0; j < i; ++j) { ++c.checks; if (X.data()[i * N + j] != T(0)) c.fail("triangular-structure-lost", "tinverse<Upper> has a non-zero below the diagonal"); } }
    }
    c.nontrivial = true;
}
// batched inverse over the trailing two axes
template <class T, size_t B, size_t N>
void inv_batched(Ctx& c) {
    Rng g = c.rng(); Tensor<T, B, N, N> A;
    for (int it = 0; it < 10; ++it) {
        for (size_t b = 0; b < B; ++b) la::fill_dominant(A.data() + b * N * N, N, g);
        scrub_stack(); Tensor<T, B, N, N> X = inverse(A); launder(X.data());
        for (size_t b = 0; b < B; ++b) judge_inverse(c, A.data() + b * N * N, X.data() + b * N * N, N, false, "batched inverse");
    }
    c.nontrivial = true;
}

// ---------------------------------------------------------------- C11
// P encodings: vector Tensor<size_t,N> with (LU)[i] = A[P(i)], or 0/1 matrix
template <class T, size_t N>
inline bool perm_from_vector(Ctx& c, const Tensor<size_t, N>& P, std::vector<size_t>& p) {
    p.assign(N, 0); std::vector<int> seen(N, 0); bool ok = true;
    for (size_t i = 0; i < N; ++i) { size_t v = P.data()[i]; if (v >= N || seen[v]++) ok = false; p[i] = v; }
    ++c.checks; if (!ok) c.fail("permutation-not-bijection", "returned permutation vector is not a bijection of 0..n-1");
    return ok;
}
template <class T, size_t N>
inline bool perm_from_matrix(Ctx& c, const Tensor<T, N, N>& P, std::vector<size_t>& p) {
    p.assign(N, 0); bool ok = true; std::vector<int> col(N, 0);
    for (size_t i = 0; i < N; ++i) { int ones = 0; for (size_t j = 0; j < N; ++j) { T v = P.data()[i * N + j]; if (v == T(1)) { ++ones; p[i] = j; ++col[j]; } else if (v != T(0)) ok = false; } if (ones != 1) ok = false; }
    for (size_t j = 0; j < N; ++j) if (col[j] != 1) ok = false;
    ++c.checks; if (!ok) c.fail("permutation-not-bijection", "returned permutation matrix is not a 0-1 matrix with unit row and column sums");
    return ok;
}
template <class T>
inline void judge_lu(Ctx& c, const T* a, const T* l, const T* u, size_t n, const std::vector<size_t>& p, const char* what) {
    // structure (exact)
    for (size_t i = 0; i < n; ++i) for (size_t j = 0; j < n; ++j) {
        ++c.checks;
        if (j > i && l[i * n + j] != T(0)) c.fail("L-not-lower-triangular", std::string(what) + ": L has a non-zero above the diagonal");
        if (j == i && l[i * n + j] != T(1)) c.fail("L-diagonal-not-unit", std::string(what) + ": diag(L) != 1");
        if (j < i && u[i * n + j] != T(0)) c.fail("U-not-upper-triangular", std::string(what) + ": U has a non-zero below the diagonal");
    }
    Mat L = la::to_ld(l, n * n), U = la::to_ld(u, n * n);
    if (!la::finite_all(L) || !la::finite_all(U)) { c.fail("non-finite-result", std::string(what) + ": L or U contains NaN/inf"); return; }
    Mat LU = la::matmul(L, U, n, n, n), aL(n * n), aU(n * n);
    for (size_t i = 0; i < n * n; ++i) { aL[i] = fabsl(L[i]); aU[i] = fabsl(U[i]); }
    Mat G = la::matmul(aL, aU, n, n, n);
    LD worst = 0;
    for (size_t i = 0; i < n; ++i) for (size_t j = 0; j < n; ++j) {
        LD err = fabsl(LU[i * n + j] - (LD)a[p[i] * n + j]), bound = CBOUND * n * unit_roundoff<T>() * G[i * n + j] + 0;
        ++c.compared; if (bound > 0) worst = std::max(worst, err / bound);
        if (err > bound) { ++c.bad; if (c.mode.empty()) { c.mode = "LU-does-not-reproduce-PA"; char b[256]; snprintf(b, sizeof b, "%s: |LU-PA|(%zu,%zu)=%.3Lg > %.3Lg (n=%zu)", what, i, j, err, bound, n); c.first_bad = b; } }
    }
    if ((double)worst > c.max_ratio) c.max_ratio = (double)worst;
}
template <LUCompType LT> struct LUPiv { static constexpr bool value = LT == LUCompType::BlockLUPiv || LT == LUCompType::SimpleLUPiv; };
template <bool B> struct If {};

template <class T, size_t N, LUCompType LT, int PENC, int FAM>
struct LUCase {
    static void call(const Tensor<T, N, N>& A, Tensor<T, N, N>& L, Tensor<T, N, N>& U, Tensor<size_t, N>&, Tensor<T, N, N>&, If<false>, int) { lu<LT>(A, L, U); }
    static void call(const Tensor<T, N, N>& A, Tensor<T, N, N>& L, Tensor<T, N, N>& U, Tensor<size_t, N>& Pv, Tensor<T, N, N>& Pm, If<true>, int penc) { if (penc == 1) lu<LT>(A, L, U, Pv); else lu<LT>(A, L, U, Pm); }
    static void run(Ctx& c) {
        Rng g = c.rng();
        VP_OPERAND((Tensor<T, N, N>), A);
        for (int it = 0; it < 10; ++it) {
            fill_family(A.data(), N, FAM, 10, g);
            Framed<Tensor<T, N, N>> L, U; Tensor<size_t, N> Pv; Tensor<T, N, N> Pm; paint(L->data(), N * N); paint(U->data(), N * N);
            // the permutation is a pure output: hand it over painted, the library has to write all of it
            for (size_t i = 0; i < N; ++i) Pv.data()[i] = 0xC3C3C3C3u + i; paint(Pm.data(), N * N);
            VP_LIB(call(A, *L, *U, Pv, Pm, If<LUPiv<LT>::value>(), PENC));
            std::vector<size_t> p(N); for (size_t i = 0; i < N; ++i) p[i] = i;
            bool ok = true;
            if (LUPiv<LT>::value) ok = PENC == 1 ? perm_from_vector<T, N>(c, Pv, p) : perm_from_matrix<T, N>(c, Pm, p);
            if (ok) judge_lu(c, A.data(), L->data(), U->data(), N, p, "lu<LT>(A,L,U[,P])");
            L.verify(c, "L"); U.verify(c, "U");
            // reconstruct(L,U[,P]) returns the original matrix
            if (ok) {
                scrub_stack(); Tensor<T, N, N> Rb = recon(*L, *U, Pv, Pm, If<LUPiv<LT>::value>()); launder(Rb.data());
                Mat aL(N * N), aU(N * N); for (size_t i = 0; i < N * N; ++i) { aL[i] = fabsl((LD)L->data()[i]); aU[i] = fabsl((LD)U->data()[i]); }
                Mat G = la::matmul(aL, aU, N, N, N);
                for (size_t i = 0; i < N; ++i) for (size_t j = 0; j < N; ++j) {
                    // the growth term of row i of LU belongs to row p[i] of A
                    size_t li = 0; for (size_t k = 0; k < N; ++k) if (p[k] == i) li = k;
                    c.near(Rb.data()[i * N + j], (LD)A.data()[i * N + j], CBOUND * N * unit_roundoff<T>() * G[li * N + j] * 2, "reconstruct(L,U,P)", (long)(i * N + j), "reconstruct-does-not-return-A");
                }
            }
            // expression argument
            if (it < 3) { Tensor<T, N, N> L2, U2; Tensor<size_t, N> Pv2; Tensor<T, N, N> Pm2; for (size_t i = 0; i < N; ++i) Pv2.data()[i] = 0xC3C3C3C3u + i; paint(Pm2.data(), N * N); paint(L2.data(), N * N); paint(U2.data(), N * N);
                VP_LIB(callx(A, L2, U2, Pv2, Pm2, If<LUPiv<LT>::value>(), PENC));
                std::vector<size_t> p2(N); for (size_t i = 0; i < N; ++i) p2[i] = i; bool ok2 = true;
                if (LUPiv<LT>::value) ok2 = PENC == 1 ? perm_from_vector<T, N>(c, Pv2, p2) : perm_from_matrix<T, N>(c, Pm2, p2);
                if (ok2) judge_lu(c, A.data(), L2.data(), U2.data(), N, p2, "lu<LT>(expr,L,U[,P])"); }
            ++c.sub;
        }
        c.nontrivial = true;
    }
    static void callx(const Tensor<T, N, N>& A, Tensor<T, N, N>& L, Tensor<T, N, N>& U, Tensor<size_t, N>&, Tensor<T, N, N>&, If<false>, int) { lu<LT>(A * T(1), L, U); }
    static void callx(const Tensor<T, N, N>& A, Tensor<T, N, N>& L, Tensor<T, N, N>& U, Tensor<size_t, N>& Pv, Tensor<T, N, N>& Pm, If<true>, int penc) { if (penc == 1) lu<LT>(A * T(1), L, U, Pv); else lu<LT>(A * T(1), L, U, Pm); }
    static Tensor<T, N, N> recon(Tensor<T, N, N>& L, Tensor<T, N, N>& U, Tensor<size_t, N>&, Tensor<T, N, N>&, If<false>) { return reconstruct(L, U); }
    static Tensor<T, N, N> recon(Tensor<T, N, N>& L, Tensor<T, N, N>& U, Tensor<size_t, N>& Pv, Tensor<T, N, N>& Pm, If<true>) { return PENC == 1 ? reconstruct(L, U, Pv) : reconstruct(L, U, Pm); }
};

// ---------------------------------------------------------------- C12
template <SolveCompType ST> struct SolvePiv { static constexpr bool value = ST == SolveCompType::SimpleInvPiv || ST == SolveCompType::BlockLUPiv || ST == SolveCompType::SimpleLUPiv; };
template <class T> inline void judge_solve(Ctx& c, const T* a, const T* x, const T* b, size_t n, size_t k, bool pivoted, const char* what) {
    Mat A = la::to_ld(a, n * n), X = la::to_ld(x, n * k), B = la::to_ld(b, n * k);
    LD kap = la::cond_inf(A, n);
    LD rho;
    { Mat Ap = pivoted ? la::prepivot(A, n) : A; LD wl = la::worst_leading_cond(Ap, n); if (wl > 1e3L) { ++c.notes["not-judged:ill-conditioned-leading-block"]; return; } kap = std::max(kap, wl); rho = la::lu_growth(Ap, n); }
    if (!la::finite_all(X)) { ++c.compared; c.fail("non-finite-result", std::string(what) + " returned NaN/inf"); return; }
    Mat AX = la::matmul(A, X, n, n, k);
    for (size_t col = 0; col < k; ++col) {
        LD res = 0, bn = 0; for (size_t i = 0; i < n; ++i) { res = std::max(res, fabsl(AX[i * k + col] - B[i * k + col])); bn = std::max(bn, fabsl(B[i * k + col])); }
        LD bound = CBOUND * n * unit_roundoff<T>() * kap * rho * bn;
        ++c.compared; if (bound > 0) { double r = (double)(res / bound); if (r > c.max_ratio) c.max_ratio = r; }
        if (res > bound) { ++c.bad; if (c.mode.empty()) { c.mode = "residual-exceeds-bound"; char bf[256]; snprintf(bf, sizeof bf, "%s: |Ax-b|=%.3Lg > %.3Lg = 16*n*u*cond*growth*|b| (n=%zu col=%zu cond=%.3Lg growth=%.3Lg)", what, res, bound, n, col, kap, rho); c.first_bad = bf; } }
    }
}
template <class T, size_t N, SolveCompType ST, size_t K, int FAM>
struct SolveCase {
    static void run(Ctx& c) { run_impl(c, If<(K == 0)>()); }
    static void run_impl(Ctx& c, If<true>) {      // vector right-hand side
        Rng g = c.rng(); VP_OPERAND((Tensor<T, N, N>), A); VP_OPERAND((Tensor<T, N>), b);
        for (int it = 0; it < 10; ++it) {
            fill_family(A.data(), N, FAM, it % 2 ? 10 : 100, g); fill_real(b.data(), N, g);
            { Framed<Tensor<T, N>> x; paint(x->data(), N); VP_LIB(*x = solve<ST>(A, b)); judge_solve(c, A.data(), x->data(), b.data(), N, 1, SolvePiv<ST>::value, "solve<ST>(A,b)"); x.verify(c, "x"); }
            if (it < 2) { scrub_stack(); Tensor<T, N> x = solve<ST>(A * T(1), b + T(0)); launder(x.data()); judge_solve(c, A.data(), x.data(), b.data(), N, 1, SolvePiv<ST>::value, "solve<ST>(expr,expr)"); }
            ++c.sub;
        }
        c.nontrivial = true;
    }
    static void run_impl(Ctx& c, If<false>) {     // N x K right-hand side
        Rng g = c.rng(); VP_OPERAND((Tensor<T, N, N>), A); VP_OPERAND((Tensor<T, N, K>), B);
        for (int it = 0; it < 10; ++it) {
            fill_family(A.data(), N, FAM, it % 2 ? 10 : 100, g); fill_real(B.data(), N * K, g);
            { Framed<Tensor<T, N, K>> X; paint(X->data(), N * K); VP_LIB(*X = solve<ST>(A, B)); judge_solve(c, A.data(), X->data(), B.data(), N, K, SolvePiv<ST>::value, "solve<ST>(A,B)"); X.verify(c, "X"); }
            if (it < 2) { scrub_stack(); Tensor<T, N, K> X = solve<ST>(A * T(1), B + T(0)); launder(X.data()); judge_solve(c, A.data(), X.data(), B.data(), N, K, SolvePiv<ST>::value, "solve<ST>(expr,expr)"); }
            ++c.sub;
        }
        c.nontrivial = true;
    }
};
// triangular substitution helpers
template <class T, size_t N, size_t K>
void subs_case(Ctx& c) {
    Rng g = c.rng(); Tensor<T, N, N> L, U; Tensor<T, N> b; Tensor<T, N, K> B;
    for (int it = 0; it < 10; ++it) {
        for (size_t i = 0; i < N; ++i) for (size_t j = 0; j < N; ++j) { L.data()[i * N + j] = i == j ? T(1) : (j < i ? (T)g.real(-0.5, 0.5) : T(0)); U.data()[i * N + j] = i == j ? (T)((g.next() & 1 ? 1 : -1) * g.real(1.5, 3)) : (j > i ? (T)g.real(-0.5, 0.5) : T(0)); }
        launder(L.data()); launder(U.data()); fill_real(b.data(), N, g); fill_real(B.data(), N * K, g);
        { scrub_stack(); Tensor<T, N> y = internal::forward_subs(L, b); launder(y.data()); judge_solve(c, L.data(), y.data(), b.data(), N, 1, false, "forward_subs(L,b)"); }
        { scrub_stack(); Tensor<T, N> x = internal::backward_subs(U, b); launder(x.data()); judge_solve(c, U.data(), x.data(), b.data(), N, 1, false, "backward_subs(U,b)"); }
        { scrub_stack(); Tensor<T, N, K> Y = internal::forward_subs(L, B); launder(Y.data()); judge_solve(c, L.data(), Y.data(), B.data(), N, K, false, "forward_subs(L,B)"); }
        { scrub_stack(); Tensor<T, N, K> X = internal::backward_subs(U, B); launder(X.data()); judge_solve(c, U.data(), X.data(), B.data(), N, K, false, "backward_subs(U,B)"); }
        // with a permutation vector: solves L y = P b, i.e. y satisfies L y = b[p]
        { Tensor<size_t, N> p; std::vector<size_t> pv; la::random_perm(pv, N, g); for (size_t i = 0; i < N; ++i) p.data()[i] = pv[i]; Tensor<T, N> pb; for (size_t i = 0; i < N; ++i) pb.data()[i] = b.data()[pv[i]];
          scrub_stack(); Tensor<T, N> y = internal::forward_subs(L, p, b); launder(y.data()); judge_solve(c, L.data(), y.data(), pb.data(), N, 1, false, "forward_subs(L,p,b)"); }
    }
    c.nontrivial = true;
}

// ---------------------------------------------------------------- C13
template <class T, size_t N, QRCompType QT, int PENC>
struct QRCase {
    static void call(const Tensor<T, N, N>& A, Tensor<T, N, N>& Q, Tensor<T, N, N>& R, Tensor<size_t, N>&, Tensor<T, N, N>&, If<false>) { qr<QT>(A, Q, R); }
    static void call(const Tensor<T, N, N>& A, Tensor<T, N, N>& Q, Tensor<T, N, N>& R, Tensor<size_t, N>& Pv, Tensor<T, N, N>& Pm, If<true>) { if (PENC == 1) qr<QT>(A, Q, R, Pv); else qr<QT>(A, Q, R, Pm); }
    static void callx(const Tensor<T, N, N>& A, Tensor<T, N, N>& Q, Tensor<T, N, N>& R, Tensor<size_t, N>&, Tensor<T, N, N>&, If<false>) { qr<QT>(A * T(1), Q, R); }
    static void callx(const Tensor<T, N, N>& A, Tensor<T, N, N>& Q, Tensor<T, N, N>& R, Tensor<size_t, N>& Pv, Tensor<T, N, N>& Pm, If<true>) { if (PENC == 1) qr<QT>(A * T(1), Q, R, Pv); else qr<QT>(A * T(1), Q, R, Pm); }
    static void run(Ctx& c) {
        Rng g = c.rng(); VP_OPERAND((Tensor<T, N, N>), A);
        constexpr bool piv = QT == QRCompType::MGSRPiv;
        for (int it = 0; it < 12; ++it) {
            // condition numbers up to 1e3 (float) / 1e5 (double): far enough for the cond-linear bound of MODIFIED Gram-Schmidt to separate from the
            // cond^2 behaviour of the classical variant
            LD kappa = it % 4 == 0 ? 1 : (it % 4 == 1 ? 10 : (it % 4 == 2 ? (sizeof(T) == 4 ? 100 : 1000) : (sizeof(T) == 4 ? 1000 : 100000)));
            la::fill_cond(A.data(), N, kappa, g);
            Framed<Tensor<T, N, N>> Q, R; Tensor<size_t, N> Pv; Tensor<T, N, N> Pm; paint(Q->data(), N * N); paint(R->data(), N * N);
            for (size_t i = 0; i < N; ++i) Pv.data()[i] = 0xC3C3C3C3u + i; paint(Pm.data(), N * N);     // pure outputs: painted
            if (it % 3 == 2) { VP_LIB(callx(A, *Q, *R, Pv, Pm, If<piv>())); } else { VP_LIB(call(A, *Q, *R, Pv, Pm, If<piv>())); }      // every third draw hands the matrix over as an expression
            std::vector<size_t> p(N); for (size_t i = 0; i < N; ++i) p[i] = i; bool ok = true;
            if (piv) ok = PENC == 1 ? perm_from_vector<T, N>(c, Pv, p) : perm_from_matrix<T, N>(c, Pm, p);
            for (size_t i = 0; i < N; ++i) for (size_t j = 0; j < i; ++j) { ++c.checks; if (R->data()[i * N + j] != T(0)) c.fail("R-not-upper-triangular", "R has a non-zero below the diagonal"); }
            Mat Qm = la::to_ld(Q->data(), N * N), Rm = la::to_ld(R->data(), N * N), Am = la::to_ld(A.data(), N * N);
            if (!la::finite_all(Qm) || !la::finite_all(Rm)) { ++c.compared; c.fail("non-finite-result", "Q or R contains NaN/inf"); continue; }
            // orthogonality: ||Q^T Q - I|| <= c n u kappa
            Mat Qt(N * N); for (size_t i = 0; i < N; ++i) for (size_t j = 0; j < N; ++j) Qt[i * N + j] = Qm[j * N + i];
            Mat QtQ = la::matmul(Qt, Qm, N, N, N); for (size_t i = 0; i < N; ++i) QtQ[i * N + i] -= 1;
            LD orth = la::norm_inf(QtQ, N, N), kA = la::cond_inf(Am, N), ob = CBOUND * N * unit_roundoff<T>() * kA;
            ++c.compared; { double r = (double)(orth / ob); if (r > c.max_ratio) c.max_ratio = r; }
            if (orth > ob) { ++c.bad; if (c.mode.empty()) { c.mode = "Q-not-orthonormal"; char b[200]; snprintf(b, sizeof b, "|QtQ-I|=%.3Lg > %.3Lg (n=%zu cond=%.3Lg)", orth, ob, N, kA); c.first_bad = b; } }
            // reproduction: Q R = P A (rows), within c n u ||A||
            if (ok) {
                Mat QR = la::matmul(Qm, Rm, N, N, N); LD nA = la::norm_inf(Am, N, N), rb = CBOUND * N * unit_roundoff<T>() * nA, worst = 0;
                for (size_t i = 0; i < N; ++i) for (size_t j = 0; j < N; ++j) worst = std::max(worst, fabsl(QR[i * N + j] - Am[p[i] * N + j]));
                ++c.compared; if (worst > rb) { ++c.bad; if (c.mode.empty()) { c.mode = "QR-does-not-reproduce-PA"; char b[200]; snprintf(b, sizeof b, "|QR-PA|=%.3Lg > %.3Lg (n=%zu)", worst, rb, N); c.first_bad = b; } }
            }
            Q.verify(c, "Q"); R.verify(c, "R");
            // QR-based determinant equals the product of R's diagonal (no pivot)
            if (!piv) { LD pr = 1; for (size_t i = 0; i < N; ++i) pr *= Rm[i * N + i]; T d; VP_LIB(d = determinant<DetCompType::QR>(A)); c.near(d, pr, CBOUND * N * unit_roundoff<T>() * fabsl(pr) + (LD)std::numeric_limits<T>::min(), "determinant<QR> vs prod(diag R)", 0, "detQR-not-product-of-R-diagonal"); }
            ++c.sub;
        }
        c.nontrivial = true;
    }
};
}} // namespace
#endif
