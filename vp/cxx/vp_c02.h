// C02 -- an evaluated expression equals the scalar operation applied element by element
#ifndef VP_C02_H
#define VP_C02_H
#include "vp.h"

namespace vp { namespace c02 {

using namespace Fastor;

enum { F_SPECIALS = 1, F_REALS = 2, F_DIV = 4, F_MAPS = 8, F_VIEWDST = 16 };

template <size_t... D> struct Prod { static constexpr size_t value = 1; };
template <size_t D0, size_t... D> struct Prod<D0, D...> { static constexpr size_t value = D0 * Prod<D...>::value; };

// IEEE specials pool (floats) -- includes half-integers (rounding functions) and signed zeros
template <class T> inline typename std::enable_if<std::is_floating_point<T>::value, T>::type special(Rng& g) {
    static const T pool[] = { T(0), -T(0), T(1), T(-1), T(0.5), T(-0.5), T(1.5), T(-1.5), T(2.5), T(-2.5), T(3.5), T(1e-3), T(-7), T(100.25),
        std::numeric_limits<T>::max(), std::numeric_limits<T>::lowest(), std::numeric_limits<T>::min(), std::numeric_limits<T>::denorm_min(),
        -std::numeric_limits<T>::denorm_min(), std::numeric_limits<T>::infinity(), -std::numeric_limits<T>::infinity(), std::numeric_limits<T>::quiet_NaN(),
        std::numeric_limits<T>::epsilon(), T(8388607.5), T(-8388608.5), T(4503599627370495.5) };
    return pool[g.next() % (sizeof pool / sizeof pool[0])];
}
template <class T> inline typename std::enable_if<!std::is_floating_point<T>::value, T>::type special(Rng& g) { return (T)g.range(-9, 9); }

// regimes: 0 small integers (|x|<=MAG for ints, <=9 for floats), 1 generic reals / medium ints, 2 IEEE specials
template <class T, long MAG> inline T draw(Rng& g, int regime, bool nonzero) {
    T v;
    for (;;) {
        if (std::is_integral<T>::value) { long m = regime == 0 ? (MAG < 9 ? MAG : 9) : MAG; v = (T)g.range(-m, m); }
        else if (regime == 0) v = (T)g.range(-9, 9);
        else if (regime == 1) v = (T)g.real(-2.5, 2.5);
        else v = special<T>(g);
        if (!nonzero || v != T(0)) return v;
    }
}

template <class T> inline void cmp_bits(Ctx& c, const T* got, const T* want, size_t n, size_t vecbody, const char* what) {
    for (size_t i = 0; i < n; ++i) {
        ++c.compared;
        if (same_val(got[i], want[i])) continue;
        ++c.bad;
        if (c.mode.empty()) {
            c.mode = std::string("mismatch@") + (i < vecbody ? "vector-body" : "scalar-tail");
            c.first_bad = std::string(what) + "[" + std::to_string(i) + "/" + std::to_string(n) + "] got " + vstr(got[i]) + " want " + vstr(want[i]);
        }
    }
    c.digest_add(got, n);
}

template <class T> struct VW { static constexpr size_t value = SIMDVector<T, DEFAULT_ABI>::Size; };

// The five assignment forms of one expression on Tensor destinations (framed), plus evaluate()
template <class T, long MAG, int FLAGS, size_t... D, class EF, class SF>
void run(Ctx& c, EF efn, SF sfn) {
    constexpr size_t SZ = Prod<D...>::value;
    constexpr size_t W = VW<T>::value;
    const size_t body = SZ / W * W;
    Rng g = c.rng();
    VP_OPERAND((Tensor<T, D...>), a); VP_OPERAND((Tensor<T, D...>), b); VP_OPERAND((Tensor<T, D...>), cc);
    T want[SZ], r0[SZ], w2[SZ];
    int nreg = 1 + (((FLAGS & F_REALS) && !std::is_integral<T>::value) ? 1 : 0) + (((FLAGS & F_SPECIALS) && std::is_floating_point<T>::value) ? 1 : 0);
#ifndef VP_FP_CONTRACT_OFF
    // without -ffp-contract=off the compiler may fuse a*b+c on either side: only the exact regime is bitwise-decidable
    if (std::is_floating_point<T>::value) nreg = 1 + (((FLAGS & F_SPECIALS) && !(FLAGS & F_REALS)) ? 1 : 0);
#endif
    for (int rep = 0; rep < 2 * nreg; ++rep) {
        int regime = rep % nreg;
        if (nreg == 2 && regime == 1 && !((FLAGS & F_REALS) && !std::is_integral<T>::value)) regime = 2;
#ifndef VP_FP_CONTRACT_OFF
        if (regime == 1 && std::is_floating_point<T>::value) regime = 2;
#endif
        for (size_t i = 0; i < SZ; ++i) { a.data()[i] = draw<T, MAG>(g, regime, false); b.data()[i] = draw<T, MAG>(g, regime, (FLAGS & F_DIV) != 0); cc.data()[i] = draw<T, MAG>(g, regime, false); }
        T s1 = opaque(draw<T, MAG>(g, regime, (FLAGS & F_DIV) != 0)), s2 = opaque(draw<T, MAG>(g, regime, false));
        launder(a.data()); launder(b.data()); launder(cc.data());
        for (size_t i = 0; i < SZ; ++i) want[i] = sfn(a.data()[i], b.data()[i], cc.data()[i], s1, s2);
        launder(want);
        if (rep == 0) { c.nontrivial = distinct_count(want, SZ) >= 2 || SZ == 1; }
        // 1. assignment into a painted, framed destination
        { Framed<Tensor<T, D...>> R; paint(R->data(), SZ); VP_LIB(*R = efn(a, b, cc, s1, s2)); cmp_bits(c, R->data(), want, SZ, body, "r=expr"); R.verify(c, "r=expr"); }
        // 2. construction from the expression
        { scrub_stack(); Tensor<T, D...> R = efn(a, b, cc, s1, s2); launder(R.data()); cmp_bits(c, R.data(), want, SZ, body, "Tensor r=expr"); }
        // 3. evaluate()
        { scrub_stack(); Tensor<T, D...> R = evaluate(efn(a, b, cc, s1, s2)); launder(R.data()); cmp_bits(c, R.data(), want, SZ, body, "evaluate(expr)"); }
        // 4. compound forms
        for (int op = 0; op < 4; ++op) {
            bool skip = false;
            for (size_t i = 0; i < SZ; ++i) {
                r0[i] = std::is_integral<T>::value ? (T)g.range(1, 3) : draw<T, MAG>(g, regime == 2 ? 2 : 0, true);
                if (op == 3 && std::is_integral<T>::value && want[i] == T(0)) skip = true;
            }
            if (skip) { ++c.notes["compound-div-skipped-zero-divisor"]; continue; }
            Framed<Tensor<T, D...>> R; std::memcpy(R->data(), r0, sizeof r0); launder(R->data());
            switch (op) {
                case 0: VP_LIB(*R += efn(a, b, cc, s1, s2)); for (size_t i = 0; i < SZ; ++i) w2[i] = r0[i] + want[i]; break;
                case 1: VP_LIB(*R -= efn(a, b, cc, s1, s2)); for (size_t i = 0; i < SZ; ++i) w2[i] = r0[i] - want[i]; break;
                case 2: VP_LIB(*R *= efn(a, b, cc, s1, s2)); for (size_t i = 0; i < SZ; ++i) w2[i] = r0[i] * want[i]; break;
                default: VP_LIB(*R /= efn(a, b, cc, s1, s2)); for (size_t i = 0; i < SZ; ++i) w2[i] = r0[i] / want[i]; break;
            }
            launder(w2);
            static const char* nm[4] = { "r+=expr", "r-=expr", "r*=expr", "r/=expr" };
            cmp_bits(c, R->data(), w2, SZ, body, nm[op]); R.verify(c, nm[op]);
        }
    }
}

// the same with TensorMap operands and destination over guard-page buffers at a byte misalignment
template <class T, long MAG, int FLAGS, size_t... D, class EF, class SF>
void run_maps(Ctx& c, EF efn, SF sfn) {
    constexpr size_t SZ = Prod<D...>::value;
    constexpr size_t W = VW<T>::value;
    const size_t body = SZ / W * W;
    Rng g = c.rng(7);
    T want[SZ], r0[SZ], w2[SZ];
    for (size_t mis = 0; mis < 64; mis += (mis < 16 ? sizeof(T) : 16)) {
        for (int tail = 0; tail < 2; ++tail) {
            Guard ga(sizeof(T) * SZ, tail != 0, tail ? 0 : mis), gb(sizeof(T) * SZ, tail != 0, tail ? 0 : mis), gc(sizeof(T) * SZ, tail != 0, tail ? 0 : mis), gr(sizeof(T) * SZ, tail != 0, tail ? 0 : mis);
            TensorMap<T, D...> a(ga.ptr<T>()), b(gb.ptr<T>()), cc(gc.ptr<T>()), R(gr.ptr<T>());
            for (size_t i = 0; i < SZ; ++i) { a.data()[i] = draw<T, MAG>(g, 0, false); b.data()[i] = draw<T, MAG>(g, 0, (FLAGS & F_DIV) != 0); cc.data()[i] = draw<T, MAG>(g, 0, false); }
            T s1 = opaque(draw<T, MAG>(g, 0, (FLAGS & F_DIV) != 0)), s2 = opaque(draw<T, MAG>(g, 0, false));
            launder(a.data()); launder(b.data()); launder(cc.data());
            for (size_t i = 0; i < SZ; ++i) want[i] = sfn(a.data()[i], b.data()[i], cc.data()[i], s1, s2);
            paint(R.data(), SZ);
            VP_LIB(R = efn(a, b, cc, s1, s2)); launder(R.data());
            cmp_bits(c, R.data(), want, SZ, body, "map=expr(maps)");
            for (size_t i = 0; i < SZ; ++i) { r0[i] = (T)g.range(1, 3); R.data()[i] = r0[i]; w2[i] = r0[i] + want[i]; }
            launder(R.data());
            VP_LIB(R += efn(a, b, cc, s1, s2)); launder(R.data());
            cmp_bits(c, R.data(), w2, SZ, body, "map+=expr(maps)");
            ga.verify(c, "operand a"); gb.verify(c, "operand b"); gc.verify(c, "operand c"); gr.verify(c, "destination map");
            ++c.sub;
        }
    }
    c.nontrivial = true;
}

// destination is a dynamic / fixed view covering the whole tensor: reaches the eval(i,j) and teval entry points of every node
template <size_t K> inline seq whole_seq() { return seq(0, (int)K); }
template <class T, long MAG, int FLAGS, size_t... D, class EF, class SF>
void run_viewdst(Ctx& c, EF efn, SF sfn) {
    constexpr size_t SZ = Prod<D...>::value;
    Rng g = c.rng(9);
    VP_OPERAND((Tensor<T, D...>), a); VP_OPERAND((Tensor<T, D...>), b); VP_OPERAND((Tensor<T, D...>), cc); T want[SZ], r0[SZ], w2[SZ];
    for (int rep = 0; rep < 2; ++rep) {
        for (size_t i = 0; i < SZ; ++i) { a.data()[i] = draw<T, MAG>(g, 0, false); b.data()[i] = draw<T, MAG>(g, 0, (FLAGS & F_DIV) != 0); cc.data()[i] = draw<T, MAG>(g, 0, false); }
        T s1 = opaque(draw<T, MAG>(g, 0, (FLAGS & F_DIV) != 0)), s2 = opaque(draw<T, MAG>(g, 0, false));
        launder(a.data()); launder(b.data()); launder(cc.data());
        for (size_t i = 0; i < SZ; ++i) want[i] = sfn(a.data()[i], b.data()[i], cc.data()[i], s1, s2);
        { Framed<Tensor<T, D...>> R; paint(R->data(), SZ); VP_LIB((*R)(whole_seq<D>()...) = efn(a, b, cc, s1, s2)); cmp_bits(c, R->data(), want, SZ, SZ, "r(seq...)=expr"); R.verify(c, "r(seq...)=expr"); }
        { Framed<Tensor<T, D...>> R; paint(R->data(), SZ); VP_LIB((*R)(fseq<0, (int)D>()...) = efn(a, b, cc, s1, s2)); cmp_bits(c, R->data(), want, SZ, SZ, "r(fseq...)=expr"); R.verify(c, "r(fseq...)=expr"); }
        { Framed<Tensor<T, D...>> R; for (size_t i = 0; i < SZ; ++i) { r0[i] = (T)g.range(1, 3); R->data()[i] = r0[i]; w2[i] = r0[i] - want[i]; } launder(R->data());
          VP_LIB((*R)(whole_seq<D>()...) -= efn(a, b, cc, s1, s2)); cmp_bits(c, R->data(), w2, SZ, SZ, "r(seq...)-=expr"); R.verify(c, "r(seq...)-=expr"); }
    }
    c.nontrivial = true;
}

// boolean-valued expressions
template <class T, int FLAGS, size_t... D, class EF, class SF>
void runb(Ctx& c, EF efn, SF sfn) {
    constexpr size_t SZ = Prod<D...>::value;
    Rng g = c.rng(3);
    VP_OPERAND((Tensor<T, D...>), a); VP_OPERAND((Tensor<T, D...>), b); VP_OPERAND((Tensor<T, D...>), cc); bool want[SZ];
    int nreg = std::is_floating_point<T>::value ? 3 : 1;
    for (int rep = 0; rep < 3 * nreg; ++rep) {
        int regime = rep % nreg;
        for (size_t i = 0; i < SZ; ++i) { a.data()[i] = draw<T, 4>(g, regime, false); b.data()[i] = (g.next() % 3 == 0) ? a.data()[i] : draw<T, 4>(g, regime, false); cc.data()[i] = draw<T, 4>(g, regime, false); }
        T s1 = opaque(a.data()[g.next() % SZ]), s2 = opaque(draw<T, 4>(g, regime, false));
        launder(a.data()); launder(b.data()); launder(cc.data());
        for (size_t i = 0; i < SZ; ++i) want[i] = sfn(a.data()[i], b.data()[i], cc.data()[i], s1, s2);
        long ntrue = 0; for (size_t i = 0; i < SZ; ++i) ntrue += want[i];
        if (ntrue > 0 && ntrue < (long)SZ) c.nontrivial = true;
        { Framed<Tensor<bool, D...>> R; std::memset((void*)R->data(), 0x5a, SZ); VP_LIB(*R = efn(a, b, cc, s1, s2));
          for (size_t i = 0; i < SZ; ++i) { unsigned char raw; std::memcpy(&raw, R->data() + i, 1); ++c.compared; if (raw != (unsigned char)want[i]) { ++c.bad; if (c.mode.empty()) { c.mode = "mismatch-bool"; c.first_bad = "bool r=expr [" + std::to_string(i) + "] got byte " + std::to_string((int)raw) + " want " + std::to_string((int)want[i]) + " a=" + vstr(a.data()[i]) + " b=" + vstr(b.data()[i]); } } }
          c.digest_add((const unsigned char*)R->data(), SZ); R.verify(c, "bool r=expr"); }
        { scrub_stack(); Tensor<bool, D...> R = efn(a, b, cc, s1, s2); for (size_t i = 0; i < SZ; ++i) { ++c.compared; if ((bool)R.data()[i] != want[i]) { ++c.bad; if (c.mode.empty()) { c.mode = "mismatch-bool"; c.first_bad = "Tensor<bool> r=expr [" + std::to_string(i) + "]"; } } } }
    }
    if (SZ == 1) c.nontrivial = true;
}

// tensor op= scalar, all five forms; floating /= scalar is a documented reciprocal multiply (<= 2 ulp)
template <class T, size_t... D>
void scalar_assign(Ctx& c) {
    constexpr size_t SZ = Prod<D...>::value;
    constexpr size_t W = VW<T>::value;
    const size_t body = SZ / W * W;
    Rng g = c.rng(5);
    T r0[SZ], w[SZ];
    for (int rep = 0; rep < 6; ++rep) {
        int regime = std::is_integral<T>::value ? 0 : rep % 3;
        T s = opaque(draw<T, 1000>(g, regime, true));
        for (int op = 0; op < 5; ++op) {
            for (size_t i = 0; i < SZ; ++i) r0[i] = draw<T, 1000>(g, regime, false);
            Framed<Tensor<T, D...>> R; std::memcpy(R->data(), r0, sizeof r0); launder(R->data());
            switch (op) {
                case 0: VP_LIB(*R = s); for (size_t i = 0; i < SZ; ++i) w[i] = s; break;
                case 1: VP_LIB(*R += s); for (size_t i = 0; i < SZ; ++i) w[i] = r0[i] + s; break;
                case 2: VP_LIB(*R -= s); for (size_t i = 0; i < SZ; ++i) w[i] = r0[i] - s; break;
                case 3: VP_LIB(*R *= s); for (size_t i = 0; i < SZ; ++i) w[i] = r0[i] * s; break;
                default: VP_LIB(*R /= s); for (size_t i = 0; i < SZ; ++i) w[i] = r0[i] / s; break;
            }
            launder(w);
            static const char* nm[5] = { "r=s", "r+=s", "r-=s", "r*=s", "r/=s" };
            if (op == 4 && std::is_floating_point<T>::value) {
                for (size_t i = 0; i < SZ; ++i) {
                    T got = R->data()[i];
                    if (w[i] != w[i] || std::isinf(w[i]) || std::fabs(w[i]) < std::numeric_limits<T>::min() * 4 || std::isinf(T(1) / s) || std::fabs(T(1) / s) < std::numeric_limits<T>::min() * 4) { ++c.notes["div-scalar-special-not-judged"]; continue; }
                    c.near(got, (long double)w[i], 2.0L * std::numeric_limits<T>::epsilon() * fabsl((long double)w[i]), nm[op], (long)i, "bound-exceeded:r/=s");
                }
            } else cmp_bits(c, R->data(), w, SZ, body, nm[op]);
            R.verify(c, nm[op]);
        }
    }
    c.nontrivial = true;
}

// instantiate a case for every size in [LO, HI] (all residues modulo all vector widths)
template <template <size_t> class F, size_t LO, size_t HI> struct ForSizes { static void go(Ctx& c) { F<LO>::go(c); ForSizes<F, LO + 1, HI>::go(c); } };
template <template <size_t> class F, size_t HI> struct ForSizes<F, HI, HI> { static void go(Ctx& c) { F<HI>::go(c); } };

}} // namespace
#endif
