// generic reference Einstein summation over label lists (used by C03 and C15)
#ifndef VP_EINSUM_H
#define VP_EINSUM_H
#include "vp.h"
#include "vp_c14.h"
#include <algorithm>

namespace vp { namespace es {
using c14::IdxVals; using c14::TensVals; using c14::flat; using c14::next; using c14::dims_of;

struct Operand { std::vector<size_t> labels, dims; };

// free labels = labels that occur exactly once over all operands, in order of first appearance
inline std::vector<size_t> free_labels(const std::vector<Operand>& ops) {
    std::vector<size_t> order; std::map<size_t, int> cnt;
    for (auto& o : ops) for (auto l : o.labels) { if (!cnt.count(l)) order.push_back(l); ++cnt[l]; }
    std::vector<size_t> fr; for (auto l : order) if (cnt[l] == 1) fr.push_back(l);
    return fr;
}
// returns false when the extents of one label disagree between its occurrences
inline bool label_extents(const std::vector<Operand>& ops, std::map<size_t, size_t>& ext) {
    for (auto& o : ops) for (size_t n = 0; n < o.labels.size(); ++n) {
        auto it = ext.find(o.labels[n]);
        if (it == ext.end()) ext[o.labels[n]] = o.dims[n]; else if (it->second != o.dims[n]) return false;
    }
    return true;
}
// out_labels: explicit output order (empty = free labels in order of first appearance)
template <class T, class ACC>
inline bool ref_einsum(const std::vector<Operand>& ops, const std::vector<const T*>& data, std::vector<size_t> out_labels,
                       std::vector<ACC>& out, std::vector<size_t>& out_dims, std::vector<long double>* mag = nullptr) {
    std::map<size_t, size_t> ext; if (!label_extents(ops, ext)) return false;
    if (out_labels.empty()) out_labels = free_labels(ops);
    std::vector<size_t> all; for (auto& kv : ext) all.push_back(kv.first);
    std::vector<size_t> alld; for (auto l : all) alld.push_back(ext[l]);
    out_dims.clear(); for (auto l : out_labels) out_dims.push_back(ext[l]);
    size_t total = 1; for (auto d : out_dims) total *= d;
    out.assign(total, ACC(0)); if (mag) mag->assign(total, 0.0L);
    std::map<size_t, size_t> pos; for (size_t n = 0; n < all.size(); ++n) pos[all[n]] = n;
    std::vector<size_t> idx(all.size(), 0), oi(out_labels.size());
    if (all.empty()) return true;
    do {
        ACC p = ACC(1);
        for (size_t k = 0; k < ops.size(); ++k) {
            size_t off = 0; for (size_t n = 0; n < ops[k].labels.size(); ++n) off = off * ops[k].dims[n] + idx[pos[ops[k].labels[n]]];
            p = Arith<ACC>::mul(p, (ACC)data[k][off]);
        }
        for (size_t n = 0; n < out_labels.size(); ++n) oi[n] = idx[pos[out_labels[n]]];
        size_t o = flat(out_dims, oi);
        out[o] = Arith<ACC>::add(out[o], p);
        if (mag) (*mag)[o] += fabsl((long double)std::abs(p));
    } while (next(alld, idx));
    return true;
}

template <class R> inline std::vector<size_t> rdims(const R& r) { return dims_of(r); }
template <class T> inline std::vector<size_t> rdims_scalar(const T&) { return {}; }

// compare a library result tensor with the reference (exact regime: numeric equality)
template <class RT, class T>
inline void cmp_result(Ctx& c, const RT& res, const std::vector<T>& want, const std::vector<size_t>& want_dims, const char* what) {
    std::vector<size_t> got_dims = dims_of(res);
    ++c.checks;
    if (got_dims != want_dims) {
        std::string g, w; for (auto d : got_dims) g += std::to_string(d) + ","; for (auto d : want_dims) w += std::to_string(d) + ",";
        c.fail("extents-mismatch", std::string(what) + ": result extents (" + g + ") want (" + w + ")");
        if (res.size() != want.size()) return;
    }
    for (size_t i = 0; i < want.size(); ++i) c.eqn(res.data()[i], want[i], what, (long)i);
    for (size_t i = 0; i < want.size(); ++i) { T v = res.data()[i] + T(0); c.digest_add(&v, 1); }
}
}} // namespace
#endif
