// C05 -- writing through a slice changes exactly the selected elements and nothing else
#ifndef VP_C05_H
#define VP_C05_H
#include "vp_views.h"
#include "vp_c04.h"
#include <utility>

namespace vp { namespace c05 {
using namespace Fastor; using namespace vp::vw;
using c04::BASE;

template <class T> inline T apply(int op, T old, T rhs) {
    // (an integer zero divisor never reaches the library: the callers skip such assignments; keep the model trap-free too)
    switch (op) { case 0: return rhs; case 1: return old + rhs; case 2: return old - rhs; case 3: return old * rhs; default: return (std::is_integral<T>::value && rhs == T(0)) ? old : old / rhs; }
}
static const char* OPN[5] = { "=", "+=", "-=", "*=", "/=" };

// values: small non-zero integers (exact in every type; products/quotients of two of them stay exact)
template <class T> inline void fill_parent(T* p, size_t n, Rng& g) { for (size_t i = 0; i < n; ++i) { long v = g.range(1, 60); p[i] = (T)((g.next() & 1) ? v : -v); } }
template <class T> inline T pick_scalar(Rng& g, int op) {
    // divisors are powers of two so that a reciprocal-multiply implementation is exact too
    static const int pw[] = { 1, 2, 4, -2, -1 };
    if (op == 4) return (T)pw[g.next() % 5];
    long v = g.range(1, 5); return (T)((g.next() & 1) ? v : -v);
}

// compare the whole parent with the model: selected elements updated, every other element bit-identical
template <class T> inline void cmp_parent(Ctx& c, const T* got, const T* model, size_t n, const std::vector<int>& offs, const std::string& what, bool numeric = false) {
    // numeric: the right-hand side was a sum of products (its zero may carry either sign): numeric equality, no digest
    if (!numeric) c.digest_add(got, n);
    for (size_t i = 0; i < n; ++i) {
        ++c.compared;
        if (numeric ? num_eq(got[i], model[i]) : same_val(got[i], model[i])) continue;
        ++c.bad;
        if (c.mode.empty()) {
            bool sel = false; for (int o : offs) if ((size_t)o == i) sel = true;
            c.mode = sel ? "selected-element-wrong" : "unselected-element-changed";
            c.first_bad = what + " parent offset " + std::to_string(i) + (sel ? " (selected)" : " (NOT selected)") + " got " + vstr(got[i]) + " want " + vstr(model[i]);
        }
    }
}

// ------------------------------------------------------------------ dynamic 1-D, runtime-exhaustive over ranges of extent m
template <class T, size_t N, size_t m>
void write1d(Ctx& c) {
    Rng g = c.rng();
    Framed<Tensor<T, N>> FA; Tensor<T, N>& A = *FA;
    Tensor<T, N> B; Tensor<T, m> Rt;
    T a0[N], model[N];
    std::vector<R1> rs; enum_ranges((int)N, (int)m, rs);
    std::vector<int> offs, offs2;
    fill_parent(a0, N, g); fill_parent(B.data(), N, g); fill_parent(Rt.data(), m, g);
    long step = 0;
    for (size_t k = 0; k < rs.size(); ++k) {
        const R1& r = rs[k]; const R1& r2 = rs[(k * 5 + 1) % rs.size()];
        offsets({ (int)N }, { r }, offs); offsets({ (int)N }, { r2 }, offs2);
        for (int op = 0; op < 5; ++op) {
            for (int kind = 0; kind < 4; ++kind) {
                if (((step++) + c.seed) % 3 != 0 && rs.size() > 400) continue;     // large families: a rotating third per seed
                std::memcpy(A.data(), a0, sizeof a0); std::memcpy(model, a0, sizeof a0); launder(A.data());
                seq sq(opaque(r.F), opaque(r.L), opaque(r.S)), sq2(opaque(r2.F), opaque(r2.L), opaque(r2.S));
                T s = opaque(pick_scalar<T>(g, op));
                std::string what = std::string("A(") + show(r) + ")" + OPN[op];
                switch (kind) {
                case 0:   // scalar
                    for (size_t j = 0; j < m; ++j) model[offs[j]] = apply(op, a0[offs[j]], s);
                    switch (op) { case 0: A(sq) = s; break; case 1: A(sq) += s; break; case 2: A(sq) -= s; break; case 3: A(sq) *= s; break; default: A(sq) /= s; }
                    what += "scalar"; break;
                case 1:   // tensor
                    for (size_t j = 0; j < m; ++j) model[offs[j]] = apply(op, a0[offs[j]], Rt.data()[j]);
                    switch (op) { case 0: A(sq) = Rt; break; case 1: A(sq) += Rt; break; case 2: A(sq) -= Rt; break; case 3: A(sq) *= Rt; break; default: A(sq) /= Rt; }
                    what += "tensor"; break;
                case 2:   // equal-extent slice of another tensor with an independent range
                    for (size_t j = 0; j < m; ++j) model[offs[j]] = apply(op, a0[offs[j]], B.data()[offs2[j]]);
                    switch (op) { case 0: A(sq) = B(sq2); break; case 1: A(sq) += B(sq2); break; case 2: A(sq) -= B(sq2); break; case 3: A(sq) *= B(sq2); break; default: A(sq) /= B(sq2); }
                    what += "B(" + show(r2) + ")"; break;
                default:  // arithmetic expression
                    for (size_t j = 0; j < m; ++j) model[offs[j]] = apply(op, a0[offs[j]], (T)(B.data()[offs2[j]] * T(2) + Rt.data()[j]));
                    { bool z = false; if (op == 4) for (size_t j = 0; j < m; ++j) if ((T)(B.data()[offs2[j]] * T(2) + Rt.data()[j]) == T(0)) z = true;
                      if (z) { std::memcpy(model, a0, sizeof a0); break; } }
                    switch (op) { case 0: A(sq) = B(sq2) * T(2) + Rt; break; case 1: A(sq) += B(sq2) * T(2) + Rt; break; case 2: A(sq) -= B(sq2) * T(2) + Rt; break; case 3: A(sq) *= B(sq2) * T(2) + Rt; break; default: A(sq) /= B(sq2) * T(2) + Rt; }
                    what += "expr"; break;
                }
                launder(A.data());
                cmp_parent(c, A.data(), model, N, offs, what);
                ++c.sub;
            }
        }
    }
    FA.verify(c, "parent frame");
    c.nontrivial = N > m || N > 1;
}

// ------------------------------------------------------------------ histories on one tensor (and on one view object), model in lock-step
template <class T, size_t N>
void history1d(Ctx& c) {
    Rng g = c.rng();
    Framed<Tensor<T, N>> FA; Tensor<T, N>& A = *FA; Tensor<T, N> B;
    T model[N];
    std::vector<R1> all; enum_ranges((int)N, -1, all);
    std::vector<int> offs, offs2;
    for (int hist = 0; hist < 60; ++hist) {
        fill_parent(model, N, g); std::memcpy(A.data(), model, sizeof model); fill_parent(B.data(), N, g); launder(A.data());
        int len = (int)g.range(5, 20);
        std::string trace;
        for (int st = 0; st < len; ++st) {
            const R1& r = all[g.next() % all.size()];
            // independent source range of the same extent
            std::vector<R1> same; for (auto& q : all) if (q.m == r.m && q.enc == 0) same.push_back(q);
            const R1& r2 = same[g.next() % same.size()];
            offsets({ (int)N }, { r }, offs); offsets({ (int)N }, { r2 }, offs2);
            int op = (int)(g.next() % 5); int kind = (int)(g.next() % 3);
            // keep magnitudes bounded so that integer arithmetic never overflows and floats stay exact
            long double mx = 0; for (size_t i = 0; i < N; ++i) mx = std::max(mx, fabsl((long double)model[i]));
            if (mx > 3000 && op == 3) op = 1;
            if (op == 4) kind = 0;
            seq sq(opaque(r.F), opaque(r.L), opaque(r.S)), sq2(opaque(r2.F), opaque(r2.L), opaque(r2.S));
            T s = opaque(pick_scalar<T>(g, op));
            trace += std::string(" A(") + show(r) + ")" + OPN[op] + (kind == 0 ? "s" : kind == 1 ? "B(" + show(r2) + ")" : "viewobj");
            if (kind == 0) {
                for (int o : offs) model[o] = apply(op, model[o], s);
                switch (op) { case 0: A(sq) = s; break; case 1: A(sq) += s; break; case 2: A(sq) -= s; break; case 3: A(sq) *= s; break; default: A(sq) /= s; }
            } else if (kind == 1) {
                for (size_t j = 0; j < offs.size(); ++j) model[offs[j]] = apply(op, model[offs[j]], B.data()[offs2[j]]);
                switch (op) { case 0: A(sq) = B(sq2); break; case 1: A(sq) += B(sq2); break; case 2: A(sq) -= B(sq2); break; default: A(sq) *= B(sq2); }
            } else {
                // two consecutive writes through the SAME view object
                auto v = A(sq);
                for (int o : offs) model[o] = apply(1, model[o], s);
                v += s;
                for (size_t j = 0; j < offs.size(); ++j) model[offs[j]] = apply(2, model[offs[j]], B.data()[offs2[j]]);
                v -= B(sq2);
            }
            launder(A.data());
            size_t before = c.bad;
            cmp_parent(c, A.data(), model, N, offs, "history step " + std::to_string(st) + ":" + trace);
            if (c.bad != before) { hist = 1000; break; }
            ++c.sub;
        }
    }
    FA.verify(c, "parent frame");
    c.nontrivial = true;
}

// ------------------------------------------------------------------ dynamic 2-D
template <class T, size_t M, size_t N, size_t m, size_t n>
void write2d(Ctx& c) {
    Rng g = c.rng();
    Framed<Tensor<T, M, N>> FA; Tensor<T, M, N>& A = *FA; Tensor<T, M, N> B; Tensor<T, m, n> Rt;
    T a0[M * N], model[M * N];
    std::vector<R1> r0, r1; enum_ranges((int)M, (int)m, r0); enum_ranges((int)N, (int)n, r1);
    fill_parent(a0, M * N, g); fill_parent(B.data(), M * N, g); fill_parent(Rt.data(), m * n, g);
    std::vector<int> offs, offs2;
    size_t total = r0.size() * r1.size();
    for (int it = 0; it < 1500; ++it) {
        size_t pick = (size_t)(g.next() % total), pick2 = (size_t)(g.next() % total);
        const R1& a = r0[pick / r1.size()]; const R1& b = r1[pick % r1.size()];
        const R1& a2 = r0[pick2 / r1.size()]; const R1& b2 = r1[pick2 % r1.size()];
        offsets({ (int)M, (int)N }, { a, b }, offs); offsets({ (int)M, (int)N }, { a2, b2 }, offs2);
        int op = it % 5, kind = (it / 5) % 4;
        std::memcpy(A.data(), a0, sizeof a0); std::memcpy(model, a0, sizeof a0); launder(A.data());
        seq s0(opaque(a.F), opaque(a.L), opaque(a.S)), s1(opaque(b.F), opaque(b.L), opaque(b.S)), t0(a2.F, a2.L, a2.S), t1(b2.F, b2.L, b2.S);
        T s = opaque(pick_scalar<T>(g, op));
        std::string what = "A(" + show(a) + "," + show(b) + ")" + OPN[op];
        switch (kind) {
        case 0: for (size_t j = 0; j < offs.size(); ++j) model[offs[j]] = apply(op, a0[offs[j]], s);
            switch (op) { case 0: A(s0, s1) = s; break; case 1: A(s0, s1) += s; break; case 2: A(s0, s1) -= s; break; case 3: A(s0, s1) *= s; break; default: A(s0, s1) /= s; } what += "scalar"; break;
        case 1: for (size_t j = 0; j < offs.size(); ++j) model[offs[j]] = apply(op, a0[offs[j]], Rt.data()[j]);
            switch (op) { case 0: A(s0, s1) = Rt; break; case 1: A(s0, s1) += Rt; break; case 2: A(s0, s1) -= Rt; break; case 3: A(s0, s1) *= Rt; break; default: A(s0, s1) /= Rt; } what += "tensor"; break;
        case 2: for (size_t j = 0; j < offs.size(); ++j) model[offs[j]] = apply(op, a0[offs[j]], B.data()[offs2[j]]);
            switch (op) { case 0: A(s0, s1) = B(t0, t1); break; case 1: A(s0, s1) += B(t0, t1); break; case 2: A(s0, s1) -= B(t0, t1); break; case 3: A(s0, s1) *= B(t0, t1); break; default: A(s0, s1) /= B(t0, t1); } what += "B(view)"; break;
        default: for (size_t j = 0; j < offs.size(); ++j) model[offs[j]] = apply(op, a0[offs[j]], (T)(B.data()[offs2[j]] - Rt.data()[j] * T(3)));
            switch (op) { case 0: A(s0, s1) = B(t0, t1) - Rt * T(3); break; case 1: A(s0, s1) += B(t0, t1) - Rt * T(3); break; case 2: A(s0, s1) -= B(t0, t1) - Rt * T(3); break; case 3: A(s0, s1) *= B(t0, t1) - Rt * T(3); break; default: { bool z = false; for (size_t j = 0; j < offs.size(); ++j) if ((T)(B.data()[offs2[j]] - Rt.data()[j] * T(3)) == T(0)) z = true; if (z) { std::memcpy(model, a0, sizeof a0); } else A(s0, s1) /= B(t0, t1) - Rt * T(3); } } what += "expr"; break;
        }
        launder(A.data());
        cmp_parent(c, A.data(), model, M * N, offs, what);
        ++c.sub;
    }
    FA.verify(c, "parent frame");
    c.nontrivial = true;
}

// rhs that requires evaluation (lazy matmul) assigned to a 2-D slice
template <class T, size_t M, size_t N, size_t m, size_t n>
void write2d_eval(Ctx& c) {
    Rng g = c.rng();
    Framed<Tensor<T, M, N>> FA; Tensor<T, M, N>& A = *FA; Tensor<T, m, 3> P; Tensor<T, 3, n> Q;
    T a0[M * N], model[M * N], prod[m * n];
    std::vector<R1> r0, r1; enum_ranges((int)M, (int)m, r0, false); enum_ranges((int)N, (int)n, r1, false);
    std::vector<int> offs;
    for (int it = 0; it < 200; ++it) {
        fill_parent(a0, M * N, g); fill_small(P.data(), m * 3, g, 4); fill_small(Q.data(), 3 * n, g, 4);
        for (size_t i = 0; i < m; ++i) for (size_t j = 0; j < n; ++j) { T s = T(0); for (size_t k = 0; k < 3; ++k) s += P.data()[i * 3 + k] * Q.data()[k * n + j]; prod[i * n + j] = s; }
        const R1& a = r0[g.next() % r0.size()]; const R1& b = r1[g.next() % r1.size()];
        offsets({ (int)M, (int)N }, { a, b }, offs);
        int op = it % 5;
        if (op == 4) { bool z = false; for (size_t j = 0; j < m * n; ++j) if (prod[j] == T(0)) z = true; if (z) op = 2; }
        std::memcpy(A.data(), a0, sizeof a0); std::memcpy(model, a0, sizeof a0); launder(A.data());
        for (size_t j = 0; j < offs.size(); ++j) model[offs[j]] = apply(op, a0[offs[j]], prod[j]);
        seq s0(a.F, a.L, a.S), s1(b.F, b.L, b.S);
        switch (op) { case 0: A(s0, s1) = P % Q; break; case 1: A(s0, s1) += P % Q; break; case 2: A(s0, s1) -= P % Q; break; case 3: A(s0, s1) *= P % Q; break; default: A(s0, s1) /= P % Q; }
        launder(A.data());
        for (size_t i = 0; i < M * N; ++i) { ++c.compared; if (!num_eq(A.data()[i], model[i])) { ++c.bad; if (c.mode.empty()) { c.mode = "selected-element-wrong"; c.first_bad = std::string("A(view)") + OPN[op] + "P%Q offset " + std::to_string(i); } } }
        ++c.sub;
    }
    FA.verify(c, "parent frame"); c.nontrivial = true;
}

// rhs that requires evaluation (lazy matrix-vector product) assigned through a 1-D slice (dynamic and compile-time ranges), all five operators
template <class T, size_t N, size_t m>
void write1d_eval(Ctx& c) {
    Rng g = c.rng();
    Framed<Tensor<T, N>> FA; Tensor<T, N>& A = *FA; Tensor<T, m, 3> P; Tensor<T, 3> q;
    T a0[N], model[N], prod[m];
    std::vector<R1> rs; enum_ranges((int)N, (int)m, rs, false);
    std::vector<int> offs;
    for (int it = 0; it < 300; ++it) {
        fill_parent(a0, N, g); fill_small(P.data(), m * 3, g, 4); fill_small(q.data(), 3, g, 4);
        for (size_t i = 0; i < m; ++i) { T s = T(0); for (size_t k = 0; k < 3; ++k) s += P.data()[i * 3 + k] * q.data()[k]; prod[i] = s; }
        const R1& r = rs[g.next() % rs.size()];
        offsets({ (int)N }, { r }, offs);
        int op = it % 5;
        if (op == 4) { bool z = false; for (size_t j = 0; j < m; ++j) if (prod[j] == T(0)) z = true; if (z) op = 1; }
        std::memcpy(A.data(), a0, sizeof a0); std::memcpy(model, a0, sizeof a0); launder(A.data());
        for (size_t j = 0; j < offs.size(); ++j) model[offs[j]] = apply(op, a0[offs[j]], prod[j]);
        seq sq(opaque(r.F), opaque(r.L), opaque(r.S));
        switch (op) { case 0: A(sq) = P % q; break; case 1: A(sq) += P % q; break; case 2: A(sq) -= P % q; break; case 3: A(sq) *= P % q; break; default: A(sq) /= P % q; }
        launder(A.data());
        cmp_parent(c, A.data(), model, N, offs, std::string("A(") + show(r) + ")" + OPN[op] + "P%q", true);
        // the whole tensor through the compile-time range of the same extent (only when m == N the range is <0,N>)
        ++c.sub;
    }
    FA.verify(c, "parent frame"); c.nontrivial = true;
}
template <class T, size_t N, size_t F, size_t L>
void fixed1d_eval(Ctx& c) {
    Rng g = c.rng(); constexpr size_t m = L - F;
    Framed<Tensor<T, N>> FA; Tensor<T, N>& A = *FA; Tensor<T, m, 3> P; Tensor<T, 3> q;
    T a0[N], model[N], prod[m];
    std::vector<int> offs; for (size_t i = F; i < L; ++i) offs.push_back((int)i);
    for (int it = 0; it < 100; ++it) {
        fill_parent(a0, N, g); fill_small(P.data(), m * 3, g, 4); fill_small(q.data(), 3, g, 4);
        for (size_t i = 0; i < m; ++i) { T s = T(0); for (size_t k = 0; k < 3; ++k) s += P.data()[i * 3 + k] * q.data()[k]; prod[i] = s; }
        int op = it % 5;
        if (op == 4) { bool z = false; for (size_t j = 0; j < m; ++j) if (prod[j] == T(0)) z = true; if (z) op = 1; }
        std::memcpy(A.data(), a0, sizeof a0); std::memcpy(model, a0, sizeof a0); launder(A.data());
        for (size_t j = 0; j < offs.size(); ++j) model[offs[j]] = apply(op, a0[offs[j]], prod[j]);
        switch (op) { case 0: A(fseq<F, L>()) = P % q; break; case 1: A(fseq<F, L>()) += P % q; break; case 2: A(fseq<F, L>()) -= P % q; break; case 3: A(fseq<F, L>()) *= P % q; break; default: A(fseq<F, L>()) /= P % q; }
        launder(A.data());
        cmp_parent(c, A.data(), model, N, offs, std::string("A(fseq)") + OPN[op] + "P%q", true);
        ++c.sub;
    }
    FA.verify(c, "parent frame"); c.nontrivial = true;
}
template <class T, size_t M, size_t N, size_t F0, size_t L0, size_t F1, size_t L1>
void fixed2d_eval(Ctx& c) {
    Rng g = c.rng(); constexpr size_t m = L0 - F0, n = L1 - F1;
    Framed<Tensor<T, M, N>> FA; Tensor<T, M, N>& A = *FA; Tensor<T, m, 3> P; Tensor<T, 3, n> Q;
    T a0[M * N], model[M * N], prod[m * n];
    std::vector<int> offs; for (size_t i = F0; i < L0; ++i) for (size_t j = F1; j < L1; ++j) offs.push_back((int)(i * N + j));
    for (int it = 0; it < 100; ++it) {
        fill_parent(a0, M * N, g); fill_small(P.data(), m * 3, g, 4); fill_small(Q.data(), 3 * n, g, 4);
        for (size_t i = 0; i < m; ++i) for (size_t j = 0; j < n; ++j) { T s = T(0); for (size_t k = 0; k < 3; ++k) s += P.data()[i * 3 + k] * Q.data()[k * n + j]; prod[i * n + j] = s; }
        int op = it % 5;
        if (op == 4) { bool z = false; for (size_t j = 0; j < m * n; ++j) if (prod[j] == T(0)) z = true; if (z) op = 2; }
        std::memcpy(A.data(), a0, sizeof a0); std::memcpy(model, a0, sizeof a0); launder(A.data());
        for (size_t j = 0; j < offs.size(); ++j) model[offs[j]] = apply(op, a0[offs[j]], prod[j]);
        switch (op) { case 0: A(fseq<F0, L0>(), fseq<F1, L1>()) = P % Q; break; case 1: A(fseq<F0, L0>(), fseq<F1, L1>()) += P % Q; break; case 2: A(fseq<F0, L0>(), fseq<F1, L1>()) -= P % Q; break;
                      case 3: A(fseq<F0, L0>(), fseq<F1, L1>()) *= P % Q; break; default: A(fseq<F0, L0>(), fseq<F1, L1>()) /= P % Q; }
        launder(A.data());
        cmp_parent(c, A.data(), model, M * N, offs, std::string("A(fseq,fseq)") + OPN[op] + "P%Q", true);
        ++c.sub;
    }
    FA.verify(c, "parent frame"); c.nontrivial = true;
}

// ------------------------------------------------------------------ dynamic n-D (rank >= 3)
template <class T, class PD, class RD> struct ND;
template <class T, size_t... D, size_t... Mx>
struct ND<T, Index<D...>, Index<Mx...>> {
    static constexpr size_t R = sizeof...(D);
    template <size_t... I>
    static void one(Ctx& c, Tensor<T, D...>& A, Tensor<T, D...>& B, Tensor<T, Mx...>& Rt, const T* a0, T* model, const std::vector<R1>& rs, const std::vector<R1>& rs2,
                    const std::vector<int>& offs, const std::vector<int>& offs2, int op, int kind, T s, std::index_sequence<I...>) {
        std::string d; for (auto& r : rs) d += show(r) + ",";
#define VP_V A(seq(opaque(rs[I].F), opaque(rs[I].L), opaque(rs[I].S))...)
#define VP_W B(seq(rs2[I].F, rs2[I].L, rs2[I].S)...)
        switch (kind) {
        case 0: for (size_t j = 0; j < offs.size(); ++j) model[offs[j]] = apply(op, a0[offs[j]], s);
            switch (op) { case 0: VP_V = s; break; case 1: VP_V += s; break; case 2: VP_V -= s; break; case 3: VP_V *= s; break; default: VP_V /= s; } break;
        case 1: for (size_t j = 0; j < offs.size(); ++j) model[offs[j]] = apply(op, a0[offs[j]], Rt.data()[j]);
            switch (op) { case 0: VP_V = Rt; break; case 1: VP_V += Rt; break; case 2: VP_V -= Rt; break; case 3: VP_V *= Rt; break; default: VP_V /= Rt; } break;
        case 2: for (size_t j = 0; j < offs.size(); ++j) model[offs[j]] = apply(op, a0[offs[j]], B.data()[offs2[j]]);
            switch (op) { case 0: VP_V = VP_W; break; case 1: VP_V += VP_W; break; case 2: VP_V -= VP_W; break; case 3: VP_V *= VP_W; break; default: VP_V /= VP_W; } break;
        default: for (size_t j = 0; j < offs.size(); ++j) model[offs[j]] = apply(op, a0[offs[j]], (T)(B.data()[offs2[j]] + Rt.data()[j] * T(2)));
            switch (op) { case 0: VP_V = VP_W + Rt * T(2); break; case 1: VP_V += VP_W + Rt * T(2); break; case 2: VP_V -= VP_W + Rt * T(2); break; case 3: VP_V *= VP_W + Rt * T(2); break;
                          default: { bool z = false; for (size_t j = 0; j < offs.size(); ++j) if ((T)(B.data()[offs2[j]] + Rt.data()[j] * T(2)) == T(0)) z = true; if (z) std::memcpy(model, a0, sizeof(T) * A.size()); else VP_V /= VP_W + Rt * T(2); } } break;
        }
#undef VP_V
#undef VP_W
        launder(A.data());
        cmp_parent(c, A.data(), model, A.size(), offs, std::string("A(") + d + ")" + OPN[op] + "kind" + std::to_string(kind));
    }
    static void run(Ctx& c) {
        Rng g = c.rng();
        Framed<Tensor<T, D...>> FA; Tensor<T, D...>& A = *FA; Tensor<T, D...> B; Tensor<T, Mx...> Rt;
        constexpr size_t SZ = Tensor<T, D...>::size();
        T a0[SZ], model[SZ];
        fill_parent(a0, SZ, g); fill_parent(B.data(), SZ, g); fill_parent(Rt.data(), Rt.size(), g);
        std::vector<int> dims = { (int)D... }, ms = { (int)Mx... };
        std::vector<std::vector<R1>> per(R);
        for (size_t n = 0; n < R; ++n) { enum_ranges(dims[n], ms[n], per[n]); if (per[n].empty()) { c.fail("harness", "no range"); return; } }
        std::vector<int> offs, offs2;
        for (int it = 0; it < 500; ++it) {
            std::vector<R1> rs, rs2; for (size_t n = 0; n < R; ++n) { rs.push_back(per[n][g.next() % per[n].size()]); rs2.push_back(per[n][g.next() % per[n].size()]); }
            offsets(dims, rs, offs); offsets(dims, rs2, offs2);
            std::memcpy(A.data(), a0, sizeof a0); std::memcpy(model, a0, sizeof a0); launder(A.data());
            int op = it % 5, kind = (it / 5) % 4;
            one(c, A, B, Rt, a0, model, rs, rs2, offs, offs2, op, kind, opaque(pick_scalar<T>(g, op)), std::make_index_sequence<R>());
            ++c.sub;
        }
        FA.verify(c, "parent frame"); c.nontrivial = true;
    }
};

// ------------------------------------------------------------------ compile-time ranges (fseq) as destination
template <class T, class PD, class... Fs> struct FIX;
template <class T, size_t... D, class... Fs>
struct FIX<T, Index<D...>, Fs...> {
    static void run(Ctx& c) {
        Rng g = c.rng();
        Framed<Tensor<T, D...>> FA; Tensor<T, D...>& A = *FA; Tensor<T, D...> B;
        Tensor<T, c04::cext(Fs::f, Fs::l, Fs::s, (int)D)...> Rt;
        constexpr size_t SZ = Tensor<T, D...>::size();
        T a0[SZ], model[SZ];
        std::vector<int> dims = { (int)D... };
        std::vector<R1> rs = { c04::norm_fixed(Fs::f, Fs::l, Fs::s, (int)D)... };
        std::vector<int> offs; offsets(dims, rs, offs);
        std::string d; for (auto& r : rs) d += show(r) + ",";
        if (offs.size() != (size_t)Rt.size()) { c.fail("harness", "extent model disagrees"); return; }
        for (int rep = 0; rep < 2; ++rep) {
            fill_parent(a0, SZ, g); fill_parent(B.data(), SZ, g); fill_parent(Rt.data(), Rt.size(), g);
            for (int op = 0; op < 5; ++op) for (int kind = 0; kind < 4; ++kind) {
                std::memcpy(A.data(), a0, sizeof a0); std::memcpy(model, a0, sizeof a0); launder(A.data());
                T s = opaque(pick_scalar<T>(g, op));
#define VP_V A(fseq<Fs::f, Fs::l, Fs::s>()...)
#define VP_W B(fseq<Fs::f, Fs::l, Fs::s>()...)
                switch (kind) {
                case 0: for (size_t j = 0; j < offs.size(); ++j) model[offs[j]] = apply(op, a0[offs[j]], s);
                    switch (op) { case 0: VP_V = s; break; case 1: VP_V += s; break; case 2: VP_V -= s; break; case 3: VP_V *= s; break; default: VP_V /= s; } break;
                case 1: for (size_t j = 0; j < offs.size(); ++j) model[offs[j]] = apply(op, a0[offs[j]], Rt.data()[j]);
                    switch (op) { case 0: VP_V = Rt; break; case 1: VP_V += Rt; break; case 2: VP_V -= Rt; break; case 3: VP_V *= Rt; break; default: VP_V /= Rt; } break;
                case 2: for (size_t j = 0; j < offs.size(); ++j) model[offs[j]] = apply(op, a0[offs[j]], B.data()[offs[j]]);
                    switch (op) { case 0: VP_V = VP_W; break; case 1: VP_V += VP_W; break; case 2: VP_V -= VP_W; break; case 3: VP_V *= VP_W; break; default: VP_V /= VP_W; } break;
                default: for (size_t j = 0; j < offs.size(); ++j) model[offs[j]] = apply(op, a0[offs[j]], (T)(B.data()[offs[j]] * T(2) + Rt.data()[j]));
                    switch (op) { case 0: VP_V = VP_W * T(2) + Rt; break; case 1: VP_V += VP_W * T(2) + Rt; break; case 2: VP_V -= VP_W * T(2) + Rt; break; case 3: VP_V *= VP_W * T(2) + Rt; break;
                                  default: { bool z = false; for (size_t j = 0; j < offs.size(); ++j) if ((T)(B.data()[offs[j]] * T(2) + Rt.data()[j]) == T(0)) z = true; if (z) std::memcpy(model, a0, sizeof a0); else VP_V /= VP_W * T(2) + Rt; } } break;
                }
#undef VP_V
#undef VP_W
                launder(A.data());
                cmp_parent(c, A.data(), model, SZ, offs, std::string("A(fseq ") + d + ")" + OPN[op] + "kind" + std::to_string(kind));
                ++c.sub;
            }
        }
        FA.verify(c, "parent frame"); c.nontrivial = true;
    }
};

// ------------------------------------------------------------------ TensorMap parent on guard pages (1-D), all ranges, a few misalignments
template <class T, size_t N>
void write1d_map(Ctx& c) {
    Rng g = c.rng();
    std::vector<R1> all; enum_ranges((int)N, -1, all);
    T a0[N], model[N]; fill_parent(a0, N, g);
    std::vector<int> offs;
    for (int tail = 0; tail < 2; ++tail) for (size_t mis = 0; mis < 64; mis += (tail ? 64 : 4 * sizeof(T))) {
        Guard gb(sizeof(T) * N, tail != 0, tail ? 0 : mis); TensorMap<T, N> A(gb.ptr<T>());
        for (size_t k = 0; k < all.size(); k += 1 + (all.size() > 600 ? 2 : 0)) {
            const R1& r = all[k]; offsets({ (int)N }, { r }, offs);
            int op = (int)(k % 5);
            std::memcpy(A.data(), a0, sizeof a0); std::memcpy(model, a0, sizeof a0); launder(A.data());
            T s = opaque(pick_scalar<T>(g, op));
            for (int o : offs) model[o] = apply(op, a0[o], s);
            seq sq(opaque(r.F), opaque(r.L), opaque(r.S));
            switch (op) { case 0: A(sq) = s; break; case 1: A(sq) += s; break; case 2: A(sq) -= s; break; case 3: A(sq) *= s; break; default: A(sq) /= s; }
            launder(A.data());
            cmp_parent(c, A.data(), model, N, offs, std::string("map(") + show(r) + ")" + OPN[op] + "scalar");
            ++c.sub;
        }
        gb.verify(c, "TensorMap parent");
    }
    c.nontrivial = true;
}

// ------------------------------------------------------------------ scalar element assignment A(i...) = x with negative indices
template <class T, size_t... D>
struct SC {
    static constexpr size_t R = sizeof...(D);
    template <size_t... I> static T& at_nc(Tensor<T, D...>& A, const std::vector<int>& i, std::index_sequence<I...>) { return A(i[I]...); }
    static void run(Ctx& c) {
        Rng g = c.rng();
        Framed<Tensor<T, D...>> FA; Tensor<T, D...>& A = *FA; constexpr size_t SZ = Tensor<T, D...>::size();
        T model[SZ]; fill_parent(model, SZ, g); std::memcpy(A.data(), model, sizeof model);
        std::vector<int> dims = { (int)D... }, idx(R);
        for (int it = 0; it < 4000; ++it) {
            int off = 0; for (size_t n = 0; n < R; ++n) { idx[n] = (int)g.range(-dims[n], dims[n] - 1); int p = idx[n] < 0 ? idx[n] + dims[n] : idx[n]; off = off * dims[n] + p; }
            T v = (T)g.range(-99, 99); int op = it % 3;
            launder(idx.data());
            if (op == 0) { at_nc(A, idx, std::make_index_sequence<R>()) = v; model[off] = v; }
            else if (op == 1) { at_nc(A, idx, std::make_index_sequence<R>()) += v; model[off] += v; }
            else { at_nc(A, idx, std::make_index_sequence<R>()) -= v; model[off] -= v; }
            if (it % 16 == 0 || it > 3990) { launder(A.data()); cmp_parent(c, A.data(), model, SZ, { off }, "A(i...) element assignment"); }
            ++c.sub;
        }
        FA.verify(c, "parent frame"); c.nontrivial = true;
    }
};
}} // namespace
#endif
